package spec

import (
	"fmt"
	"os"
	"strconv"
	"strings"
)

// ---- lexer --------------------------------------------------------------------

type tok struct {
	k string // "id", "int", "str", "op", "eof"
	s string
}

func lex(src string) ([]tok, error) {
	var out []tok
	i := 0
	ops := []string{"<==>", "==>", "==", "!=", "<=", ">=", "&&", "||", "++", "::", ":=", "+", "-", "*", "/", "%", "<", ">", "!", "(", ")", "[", "]", "{", "}", ",", ":", "|", ".", "?", "@", "#", "=", "&"}
	for i < len(src) {
		c := src[i]
		switch {
		case c == ' ' || c == '\t' || c == '\n' || c == '\r':
			i++
		case c == '"':
			j := i + 1
			for j < len(src) && src[j] != '"' {
				if src[j] == '\\' {
					j++
				}
				j++
			}
			if j >= len(src) {
				return nil, fmt.Errorf("unterminated string")
			}
			v, err := strconv.Unquote(src[i : j+1])
			if err != nil {
				return nil, fmt.Errorf("bad string %s: %v", src[i:j+1], err)
			}
			out = append(out, tok{"str", v})
			i = j + 1
		case c == '\'':
			j := i + 1
			for j < len(src) && src[j] != '\'' {
				if src[j] == '\\' {
					j++
				}
				j++
			}
			if j >= len(src) {
				return nil, fmt.Errorf("unterminated char")
			}
			v, _, _, err := strconv.UnquoteChar(src[i+1:j], '\'')
			if err != nil {
				return nil, fmt.Errorf("bad char %s", src[i:j+1])
			}
			out = append(out, tok{"int", strconv.Itoa(int(v))})
			i = j + 1
		case c >= '0' && c <= '9':
			j := i
			for j < len(src) && (isAlnum(src[j]) || src[j] == '_') {
				j++
			}
			txt := strings.ReplaceAll(src[i:j], "_", "")
			if strings.HasPrefix(txt, "0x") || strings.HasPrefix(txt, "0X") {
				v, err := strconv.ParseUint(txt[2:], 16, 64)
				if err != nil {
					return nil, err
				}
				txt = strconv.FormatUint(v, 10)
			}
			out = append(out, tok{"int", txt})
			i = j
		case isAlpha(c):
			j := i
			for j < len(src) && (isAlnum(src[j]) || src[j] == '_' || src[j] == '$') {
				j++
			}
			out = append(out, tok{"id", src[i:j]})
			i = j
		default:
			matched := false
			for _, op := range ops {
				if strings.HasPrefix(src[i:], op) {
					out = append(out, tok{"op", op})
					i += len(op)
					matched = true
					break
				}
			}
			if !matched {
				return nil, fmt.Errorf("unexpected character %q", c)
			}
		}
	}
	out = append(out, tok{"eof", ""})
	return out, nil
}

func isAlpha(c byte) bool { return c == '_' || (c >= 'a' && c <= 'z') || (c >= 'A' && c <= 'Z') }
func isAlnum(c byte) bool { return isAlpha(c) || (c >= '0' && c <= '9') }

// ---- expression parser (precedence climbing) -------------------------------------

type parser struct {
	toks []tok
	p    int
}

func (p *parser) peek() tok { return p.toks[p.p] }
func (p *parser) next() tok { t := p.toks[p.p]; p.p++; return t }
func (p *parser) isOp(s string) bool {
	t := p.peek()
	return t.k == "op" && t.s == s
}
func (p *parser) isID(s string) bool {
	t := p.peek()
	return t.k == "id" && t.s == s
}
func (p *parser) expectOp(s string) error {
	if !p.isOp(s) {
		return fmt.Errorf("expected %q, got %q", s, p.peek().s)
	}
	p.p++
	return nil
}

var binPrec = map[string]int{
	"<==>": 1, "==>": 2, "||": 3, "&&": 4,
	"==": 5, "!=": 5, "<": 5, "<=": 5, ">": 5, ">=": 5,
	"++": 6, "+": 7, "-": 7, "*": 8, "/": 8, "%": 8,
}

func ParseExpr(src string) (Expr, error) {
	toks, err := lex(src)
	if err != nil {
		return nil, err
	}
	p := &parser{toks: toks}
	e, err := p.expr(0)
	if err != nil {
		return nil, fmt.Errorf("%v (in %q)", err, src)
	}
	if p.peek().k != "eof" {
		return nil, fmt.Errorf("unexpected %q after expression (in %q)", p.peek().s, src)
	}
	return e, nil
}

func (p *parser) expr(min int) (Expr, error) {
	// prefix forms with lowest precedence
	if p.isID("forall") || p.isID("exists") {
		return p.quant()
	}
	if p.isID("if") {
		p.next()
		c, err := p.expr(0)
		if err != nil {
			return nil, err
		}
		if !p.isID("then") {
			return nil, fmt.Errorf("expected then")
		}
		p.next()
		a, err := p.expr(0)
		if err != nil {
			return nil, err
		}
		if !p.isID("else") {
			return nil, fmt.Errorf("expected else")
		}
		p.next()
		b, err := p.expr(0)
		if err != nil {
			return nil, err
		}
		return &Cond{c, a, b}, nil
	}
	if p.isID("let") {
		p.next()
		name := p.next()
		if name.k != "id" {
			return nil, fmt.Errorf("let: expected name")
		}
		if err := p.expectOp(":="); err != nil {
			return nil, err
		}
		v, err := p.expr(0)
		if err != nil {
			return nil, err
		}
		if !p.isID("in") {
			return nil, fmt.Errorf("let: expected in")
		}
		p.next()
		b, err := p.expr(0)
		if err != nil {
			return nil, err
		}
		return &Let{name.s, v, b}, nil
	}
	lhs, err := p.unary()
	if err != nil {
		return nil, err
	}
	for {
		t := p.peek()
		if t.k != "op" {
			break
		}
		prec, ok := binPrec[t.s]
		if !ok || prec < min {
			break
		}
		p.next()
		nextMin := prec + 1
		if t.s == "==>" { // right associative
			nextMin = prec
		}
		rhs, err := p.expr(nextMin)
		if err != nil {
			return nil, err
		}
		lhs = &Binary{t.s, lhs, rhs}
	}
	return lhs, nil
}

func (p *parser) quant() (Expr, error) {
	kind := p.next().s
	var vars []Param
	for {
		n := p.next()
		if n.k != "id" {
			return nil, fmt.Errorf("%s: expected variable name, got %q", kind, n.s)
		}
		tys := ""
		for !(p.isOp(",") || p.isOp("::")) && p.peek().k != "eof" {
			tys += p.next().s
		}
		if tys == "" {
			return nil, fmt.Errorf("%s: expected type after %s", kind, n.s)
		}
		vars = append(vars, Param{n.s, tys})
		if p.isOp(",") {
			p.next()
			continue
		}
		break
	}
	if err := p.expectOp("::"); err != nil {
		return nil, err
	}
	var trigs [][]Expr
	for p.isOp("{") {
		p.next()
		var tr []Expr
		for {
			e, err := p.expr(0)
			if err != nil {
				return nil, err
			}
			tr = append(tr, e)
			if p.isOp(",") {
				p.next()
				continue
			}
			break
		}
		if err := p.expectOp("}"); err != nil {
			return nil, err
		}
		trigs = append(trigs, tr)
	}
	body, err := p.expr(0)
	if err != nil {
		return nil, err
	}
	return &Quant{Kind: kind, Vars: vars, Triggers: trigs, Body: body}, nil
}

func (p *parser) unary() (Expr, error) {
	if p.isOp("!") {
		p.next()
		x, err := p.unary()
		if err != nil {
			return nil, err
		}
		return &Unary{"!", x}, nil
	}
	if p.isOp("-") {
		p.next()
		x, err := p.unary()
		if err != nil {
			return nil, err
		}
		return &Unary{"-", x}, nil
	}
	return p.postfix()
}

func (p *parser) postfix() (Expr, error) {
	e, err := p.primary()
	if err != nil {
		return nil, err
	}
	for {
		switch {
		case p.isOp("."):
			p.next()
			n := p.next()
			if n.k != "id" {
				return nil, fmt.Errorf("expected field name after '.'")
			}
			// qualified call pkg.f(args)
			if id, ok := e.(*Ident); ok && p.isOp("(") {
				args, err := p.args()
				if err != nil {
					return nil, err
				}
				e = &Call{Fun: id.Name + "." + n.s, Args: args}
				continue
			}
			e = &Sel{e, n.s}
		case p.isOp("["):
			p.next()
			var lo, hi Expr
			if !p.isOp(":") {
				lo, err = p.expr(0)
				if err != nil {
					return nil, err
				}
			}
			if p.isOp(":") {
				p.next()
				if !p.isOp("]") {
					hi, err = p.expr(0)
					if err != nil {
						return nil, err
					}
				}
				if err := p.expectOp("]"); err != nil {
					return nil, err
				}
				e = &SliceE{e, lo, hi}
			} else {
				if err := p.expectOp("]"); err != nil {
					return nil, err
				}
				e = &Index{e, lo}
			}
		default:
			return e, nil
		}
	}
}

func (p *parser) args() ([]Expr, error) {
	if err := p.expectOp("("); err != nil {
		return nil, err
	}
	var args []Expr
	if p.isOp(")") {
		p.next()
		return args, nil
	}
	for {
		a, err := p.expr(0)
		if err != nil {
			return nil, err
		}
		args = append(args, a)
		if p.isOp(",") {
			p.next()
			continue
		}
		break
	}
	if err := p.expectOp(")"); err != nil {
		return nil, err
	}
	return args, nil
}

func (p *parser) primary() (Expr, error) {
	t := p.next()
	switch t.k {
	case "int":
		return &IntLit{t.s}, nil
	case "str":
		return &StrLit{t.s}, nil
	case "id":
		switch t.s {
		case "true":
			return &BoolLit{true}, nil
		case "false":
			return &BoolLit{false}, nil
		case "nil":
			return &NilLit{}, nil
		case "old":
			if p.isOp("(") {
				p.next()
				x, err := p.expr(0)
				if err != nil {
					return nil, err
				}
				if err := p.expectOp(")"); err != nil {
					return nil, err
				}
				return &Old{x}, nil
			}
		}
		if p.isOp("(") {
			args, err := p.args()
			if err != nil {
				return nil, err
			}
			return &Call{Fun: t.s, Args: args}, nil
		}
		return &Ident{t.s}, nil
	case "op":
		switch t.s {
		case "(":
			e, err := p.expr(0)
			if err != nil {
				return nil, err
			}
			if err := p.expectOp(")"); err != nil {
				return nil, err
			}
			return e, nil
		case "|":
			e, err := p.expr(0)
			if err != nil {
				return nil, err
			}
			if err := p.expectOp("|"); err != nil {
				return nil, err
			}
			return &Len{e}, nil
		case "[":
			var es []Expr
			if !p.isOp("]") {
				for {
					e, err := p.expr(0)
					if err != nil {
						return nil, err
					}
					es = append(es, e)
					if p.isOp(",") {
						p.next()
						continue
					}
					break
				}
			}
			if err := p.expectOp("]"); err != nil {
				return nil, err
			}
			return &SeqLit{es}, nil
		}
	}
	return nil, fmt.Errorf("unexpected token %q", t.s)
}

// ---- file parser --------------------------------------------------------------------

type rawLine struct {
	text string
	line int
}

var clauseKeywords = map[string]bool{
	"requires": true, "ensures": true, "assigns": true, "tags": true, "loop": true, "invariant": true,
	"decreases": true, "ghost": true, "pure": true, "panics": true, "nosafety": true, "checksafety": true, "doc": true, "use": true, "by": true,
	"assert": true, "unroll": true, "trigger": true, "establishes": true, "split": true, "implements": true, "defines": true, "panicensures": true, "generalizing": true, "hint": true, "measure": true, "anchor": true,
}

var topKeywords = map[string]bool{"macro": true, "func": true, "trusted": true, "spec": true, "axiom": true, "lemma": true, "ghostfield": true, "sentinel": true, "immutable": true, "consttable": true, "globalinv": true, "onlycalledfrom": true, "constfield": true, "typeinv": true, "storedonlyin": true, "fieldis": true, "overridesall": true, "deterministic": true}

// ParseFile reads all //@ lines of a file.
func ParseFile(path string) (*File, error) {
	data, err := os.ReadFile(path)
	if err != nil {
		return nil, err
	}
	return Parse(path, string(data))
}

func Parse(path, src string) (*File, error) {
	var lines []rawLine
	for i, l := range strings.Split(src, "\n") {
		t := strings.TrimSpace(l)
		if !strings.HasPrefix(t, "//@") {
			continue
		}
		t = strings.TrimSpace(t[3:])
		if t == "" {
			continue
		}
		lines = append(lines, rawLine{t, i + 1})
	}
	// group: a logical line starts with a keyword; others are continuations
	var logical []rawLine
	for _, l := range lines {
		first := firstWord(l.text)
		if topKeywords[first] || clauseKeywords[first] || strings.HasPrefix(l.text, "assert@") {
			logical = append(logical, l)
		} else if len(logical) > 0 {
			logical[len(logical)-1].text += " " + l.text
		} else {
			return nil, fmt.Errorf("%s:%d: continuation line without a clause", path, l.line)
		}
	}
	f := &File{}
	var cur *FuncSpec
	var curLoop *LoopSpec
	var curLemma *Lemma
	var curAxiom *Axiom
	fail := func(l rawLine, err error) error { return fmt.Errorf("%s:%d: %v", path, l.line, err) }
	for _, l := range logical {
		text, label, ctags := splitTrailer(l.text)
		first := firstWord(text)
		rest := strings.TrimSpace(text[len(first):])
		mkClause := func(src string) (Clause, error) {
			e, err := ParseExpr(src)
			if err != nil {
				return Clause{}, err
			}
			return Clause{E: e, Label: label, Tags: ctags, File: path, Line: l.line, Text: src}, nil
		}
		switch first {
		case "trusted", "func":
			trusted := false
			if first == "trusted" {
				trusted = true
				if firstWord(rest) != "func" {
					return nil, fail(l, fmt.Errorf("expected 'trusted func'"))
				}
				rest = strings.TrimSpace(rest[4:])
			}
			fs, err := parseFuncHeader(rest)
			if err != nil {
				return nil, fail(l, err)
			}
			fs.Trusted = trusted
			fs.File, fs.Line = path, l.line
			fs.Loops = map[int]*LoopSpec{}
			fs.Unroll = map[int]int{}
			f.Funcs = append(f.Funcs, fs)
			cur, curLoop, curLemma, curAxiom = fs, nil, nil, nil
		case "spec", "macro":
			sf, err := parseSpecFn(rest)
			if err != nil {
				return nil, fail(l, err)
			}
			sf.Macro = first == "macro"
			sf.File, sf.Line = path, l.line
			f.SpecFns = append(f.SpecFns, sf)
			cur, curLoop, curLemma, curAxiom = nil, nil, nil, nil
		case "axiom":
			i := strings.Index(rest, ":")
			if i < 0 {
				return nil, fail(l, fmt.Errorf("axiom: expected name ':' expr"))
			}
			e, err := ParseExpr(rest[i+1:])
			if err != nil {
				return nil, fail(l, err)
			}
			ax := &Axiom{Name: strings.TrimSpace(rest[:i]), E: e, File: path, Line: l.line}
			f.Axioms = append(f.Axioms, ax)
			cur, curLoop, curLemma, curAxiom = nil, nil, nil, ax
		case "lemma":
			lm, err := parseLemma(rest)
			if err != nil {
				return nil, fail(l, err)
			}
			lm.File, lm.Line = path, l.line
			f.Lemmas = append(f.Lemmas, lm)
			cur, curLoop, curLemma, curAxiom = nil, nil, lm, nil
		case "ghostfield":
			// ghostfield view seq   |  ghostfield global implCalls int
			parts := strings.Fields(rest)
			g := &GhostField{}
			if len(parts) == 3 && parts[0] == "global" {
				g.Global = true
				parts = parts[1:]
			}
			if len(parts) == 4 && parts[2] == "index" {
				g.Index = parts[3]
				parts = parts[:2]
			}
			if len(parts) == 4 && parts[2] == "guard" {
				g.Guard = parts[3]
				parts = parts[:2]
			}
			if len(parts) != 2 {
				return nil, fail(l, fmt.Errorf("ghostfield: expected [global] name type [guard g]"))
			}
			g.Name, g.Type = parts[0], parts[1]
			f.Ghosts = append(f.Ghosts, g)
			cur = nil
		case "sentinel":
			for _, s := range strings.Split(rest, ",") {
				f.Sentinels = append(f.Sentinels, strings.TrimSpace(s))
			}
			cur = nil
		case "immutable":
			for _, s := range strings.Split(rest, ",") {
				f.Immutable = append(f.Immutable, strings.TrimSpace(s))
			}
			cur = nil
		case "deterministic":
			// deterministic <package name> by <function>
			parts := strings.Fields(rest)
			if len(parts) != 3 || parts[1] != "by" {
				return nil, fail(l, fmt.Errorf("deterministic <package name> by <function>"))
			}
			f.Deterministic = append(f.Deterministic, [2]string{parts[0], parts[2]})
			cur = nil
		case "overridesall":
			// overridesall <Type> <embedded field> by <function>
			parts := strings.Fields(rest)
			if len(parts) != 4 || parts[2] != "by" {
				return nil, fail(l, fmt.Errorf("overridesall <Type> <embedded field> by <function>"))
			}
			f.OverridesAll = append(f.OverridesAll, [3]string{parts[0], parts[1], parts[3]})
			cur = nil
		case "fieldis":
			parts := strings.Fields(rest)
			if len(parts) != 2 {
				return nil, fail(l, fmt.Errorf("fieldis <Type.field> <func>"))
			}
			f.FieldIs = append(f.FieldIs, [2]string{parts[0], parts[1]})
			cur = nil
		case "storedonlyin":
			parts := splitList(strings.Replace(rest, " ", ",", 1))
			if len(parts) < 2 {
				return nil, fail(l, fmt.Errorf("storedonlyin <Type.field> <func>, <func>..."))
			}
			f.StoredOnlyIn = append(f.StoredOnlyIn, parts)
			cur = nil
		case "typeinv":
			// typeinv *chain c by newChain: expr
			i := strings.Index(rest, ":")
			if i < 0 {
				return nil, fail(l, fmt.Errorf("typeinv <type> <var> by <ctor>: expr"))
			}
			hd := strings.Fields(rest[:i])
			if len(hd) != 4 || hd[2] != "by" {
				return nil, fail(l, fmt.Errorf("typeinv <type> <var> by <ctor>: expr"))
			}
			e, err := ParseExpr(rest[i+1:])
			if err != nil {
				return nil, fail(l, err)
			}
			f.TypeInvs = append(f.TypeInvs, &TypeInv{Type: hd[0], Var: hd[1], Ctor: hd[3], E: e, Text: strings.TrimSpace(rest[i+1:]), File: path, Line: l.line})
			cur, curLoop, curLemma, curAxiom = nil, nil, nil, nil
		case "constfield":
			f.ConstFields = append(f.ConstFields, splitList(rest)...)
			cur = nil
		case "onlycalledfrom":
			parts := strings.Fields(rest)
			if len(parts) != 2 {
				return nil, fail(l, fmt.Errorf("onlycalledfrom <callee> <caller>"))
			}
			f.OnlyCalledFrom = append(f.OnlyCalledFrom, [2]string{parts[0], parts[1]})
			cur = nil
		case "consttable":
			for _, s := range strings.Split(rest, ",") {
				f.ConstTables = append(f.ConstTables, strings.TrimSpace(s))
			}
			cur = nil
		case "globalinv":
			i := strings.Index(rest, ":")
			if i < 0 {
				return nil, fail(l, fmt.Errorf("globalinv: expected name ':' expr"))
			}
			e, err := ParseExpr(rest[i+1:])
			if err != nil {
				return nil, fail(l, err)
			}
			f.GlobalInvs = append(f.GlobalInvs, &GlobalInv{Name: strings.TrimSpace(rest[:i]), E: e, Text: strings.TrimSpace(rest[i+1:]), File: path, Line: l.line})
			cur, curLoop, curLemma, curAxiom = nil, nil, nil, nil
		case "doc":
			d := strings.Trim(rest, ": ")
			if cur != nil {
				cur.Doc = d
			} else if curAxiom != nil {
				curAxiom.Doc = d
			}
		case "anchor":
			if cur == nil {
				return nil, fail(l, fmt.Errorf("anchor outside func"))
			}
			a := strings.TrimSpace(rest)
			if len(a) < 2 || a[0] != '"' || a[len(a)-1] != '"' {
				return nil, fail(l, fmt.Errorf("anchor \"text\""))
			}
			cur.Anchor = a[1 : len(a)-1]
		case "tags":
			tags := splitList(rest)
			if cur != nil {
				cur.Tags = append(cur.Tags, tags...)
			} else if curLemma != nil {
				curLemma.Tags = append(curLemma.Tags, tags...)
			} else {
				return nil, fail(l, fmt.Errorf("tags outside func/lemma"))
			}
		case "measure":
			if curLemma == nil {
				return nil, fail(l, fmt.Errorf("measure outside lemma"))
			}
			e, err := ParseExpr(rest)
			if err != nil {
				return nil, fail(l, err)
			}
			curLemma.Measure = e
			curLemma.Induct = "n!measure"
			curLemma.Lo = &IntLit{"0"}
			curLemma.Hi = &IntLit{"1000000000000000000000000000000"}
		case "generalizing":
			if curLemma == nil {
				return nil, fail(l, fmt.Errorf("generalizing outside lemma"))
			}
			curLemma.Generalizing = append(curLemma.Generalizing, splitList(rest)...)
		case "hint":
			if curLemma == nil {
				return nil, fail(l, fmt.Errorf("hint outside lemma"))
			}
			e, err := ParseExpr(rest)
			if err != nil {
				return nil, fail(l, err)
			}
			curLemma.Hints = append(curLemma.Hints, e)
		case "trigger":
			if curLemma == nil {
				return nil, fail(l, fmt.Errorf("trigger outside lemma"))
			}
			var tr []Expr
			for _, part := range splitTop(rest) {
				e, err := ParseExpr(part)
				if err != nil {
					return nil, fail(l, err)
				}
				tr = append(tr, e)
			}
			curLemma.Triggers = append(curLemma.Triggers, tr)
		case "use":
			if curLemma == nil && cur != nil {
				cur.UseLemmas = append(cur.UseLemmas, splitList(rest)...)
				continue
			}
			if curLemma == nil {
				return nil, fail(l, fmt.Errorf("use outside lemma/func"))
			}
			e, err := ParseExpr(rest)
			if err != nil {
				return nil, fail(l, err)
			}
			curLemma.Uses = append(curLemma.Uses, e)
		case "by":
			if curLemma == nil {
				return nil, fail(l, fmt.Errorf("by outside lemma"))
			}
			// by induction on k from LO to HI [down]
			if !strings.HasPrefix(rest, "induction on ") {
				return nil, fail(l, fmt.Errorf("expected 'by induction on <var> from LO to HI [down]'"))
			}
			r2 := strings.TrimSpace(rest[len("induction on "):])
			fi := strings.Index(r2, " from ")
			ti := strings.LastIndex(r2, " to ")
			if fi < 0 || ti < fi {
				return nil, fail(l, fmt.Errorf("expected 'by induction on <var> from LO to HI [down]'"))
			}
			curLemma.Induct = strings.TrimSpace(r2[:fi])
			hi := strings.TrimSpace(r2[ti+4:])
			if strings.HasSuffix(hi, " down") {
				curLemma.Down = true
				hi = strings.TrimSpace(strings.TrimSuffix(hi, " down"))
			}
			var err error
			if curLemma.Lo, err = ParseExpr(r2[fi+6 : ti]); err != nil {
				return nil, fail(l, err)
			}
			if curLemma.Hi, err = ParseExpr(hi); err != nil {
				return nil, fail(l, err)
			}
		default:
			if cur == nil {
				return nil, fail(l, fmt.Errorf("clause %q outside a func", first))
			}
			switch {
			case first == "requires":
				c, err := mkClause(rest)
				if err != nil {
					return nil, fail(l, err)
				}
				cur.Requires = append(cur.Requires, c)
			case first == "ensures":
				c, err := mkClause(rest)
				if err != nil {
					return nil, fail(l, err)
				}
				cur.Ensures = append(cur.Ensures, c)
			case first == "assigns":
				var es []Expr
				if strings.TrimSpace(rest) != "nothing" {
					for _, part := range splitTop(rest) {
						e, err := ParseExpr(part)
						if err != nil {
							return nil, fail(l, err)
						}
						es = append(es, e)
					}
				}
				if curLoop != nil {
					curLoop.Assigns = append(curLoop.Assigns, es...)
				} else {
					cur.Assigns = append(cur.Assigns, es...)
					cur.HasAssigns = true
				}
			case first == "panicensures":
				c, err := mkClause(rest)
				if err != nil {
					return nil, fail(l, err)
				}
				cur.PanicEnsures = append(cur.PanicEnsures, c)
			case first == "defines":
				c, err := mkClause(rest)
				if err != nil {
					return nil, fail(l, err)
				}
				cur.Defines = append(cur.Defines, c)
			case first == "implements":
				cur.Implements = append(cur.Implements, splitList(rest)...)
			case first == "split":
				for _, part := range splitTop(rest) {
					e, err := ParseExpr(part)
					if err != nil {
						return nil, fail(l, err)
					}
					cur.Split = append(cur.Split, e)
				}
			case first == "establishes":
				cur.Establishes = append(cur.Establishes, splitList(rest)...)
			case first == "pure":
				cur.Pure = true
			case first == "panics":
				cur.Panics = true
			case first == "checksafety":
				cur.CheckSafety = true
			case first == "nosafety":
				if strings.TrimSpace(rest) == "" {
					cur.NoSafety = true
				} else {
					cur.NoSafetyKinds = append(cur.NoSafetyKinds, splitList(rest)...)
				}
			case first == "unroll":
				// unroll <loop> <n>
				parts := strings.Fields(rest)
				if len(parts) != 2 {
					return nil, fail(l, fmt.Errorf("unroll: expected loop and count"))
				}
				a, _ := strconv.Atoi(parts[0])
				b, _ := strconv.Atoi(parts[1])
				cur.Unroll[a] = b
			case first == "loop":
				id := strings.TrimSuffix(strings.TrimSpace(rest), ":")
				curLoop = &LoopSpec{}
				if n, err := strconv.Atoi(id); err == nil {
					cur.Loops[n] = curLoop
				} else {
					if cur.NamedLoops == nil {
						cur.NamedLoops = map[string]*LoopSpec{}
					}
					cur.NamedLoops[id] = curLoop
				}
			case first == "invariant":
				if curLoop == nil {
					return nil, fail(l, fmt.Errorf("invariant outside loop"))
				}
				c, err := mkClause(rest)
				if err != nil {
					return nil, fail(l, err)
				}
				curLoop.Invariants = append(curLoop.Invariants, c)
			case first == "decreases":
				if curLoop == nil {
					return nil, fail(l, fmt.Errorf("decreases outside loop"))
				}
				e, err := ParseExpr(rest)
				if err != nil {
					return nil, fail(l, err)
				}
				curLoop.Decreases = e
			case first == "ghost":
				// ghost k int = <init> then <step>
				if curLoop == nil {
					return nil, fail(l, fmt.Errorf("ghost outside loop"))
				}
				eq := strings.Index(rest, "=")
				th := strings.Index(rest, " then ")
				if eq < 0 || th < 0 {
					return nil, fail(l, fmt.Errorf("ghost: expected 'name type = init then step'"))
				}
				nt := strings.Fields(rest[:eq])
				if len(nt) != 2 {
					return nil, fail(l, fmt.Errorf("ghost: expected name and type"))
				}
				ie, err := ParseExpr(rest[eq+1 : th])
				if err != nil {
					return nil, fail(l, err)
				}
				se, err := ParseExpr(rest[th+6:])
				if err != nil {
					return nil, fail(l, err)
				}
				curLoop.Ghosts = append(curLoop.Ghosts, GhostVar{nt[0], nt[1], ie, se})
			case strings.HasPrefix(text, "assert@"):
				// assert@call(callee#k): expr    | assert@after(callee#k): expr
				cl := strings.Index(text, "):")
				op := strings.Index(text, "(")
				if cl < 0 || op < 0 {
					return nil, fail(l, fmt.Errorf("assert@call(callee#k): expr"))
				}
				kind := text[len("assert@"):op]
				inner := text[op+1 : cl]
				ord := 0
				if h := strings.LastIndex(inner, "#"); h >= 0 {
					ord, _ = strconv.Atoi(inner[h+1:])
					inner = inner[:h]
				}
				c, err := mkClause(text[cl+2:])
				if err != nil {
					return nil, fail(l, err)
				}
				cur.CallAsserts = append(cur.CallAsserts, CallAssert{Callee: strings.TrimSpace(inner), Ord: ord, Before: kind != "after", Clause: c})
			default:
				return nil, fail(l, fmt.Errorf("unknown clause %q", first))
			}
		}
	}
	return f, nil
}

func firstWord(s string) string {
	for i := 0; i < len(s); i++ {
		if !(isAlnum(s[i]) || s[i] == '_') {
			return s[:i]
		}
	}
	return s
}

// splitTrailer removes "// label: x" and "// tags: a, b" trailers.
func splitTrailer(s string) (text, label string, tags []string) {
	text = s
	for {
		i := strings.LastIndex(text, "//")
		if i < 0 {
			break
		}
		tr := strings.TrimSpace(text[i+2:])
		if strings.HasPrefix(tr, "label:") {
			label = strings.TrimSpace(tr[6:])
			text = strings.TrimSpace(text[:i])
			continue
		}
		if strings.HasPrefix(tr, "tags:") {
			tags = splitList(tr[5:])
			text = strings.TrimSpace(text[:i])
			continue
		}
		break
	}
	return
}

func splitList(s string) []string {
	var out []string
	for _, p := range strings.Split(s, ",") {
		p = strings.TrimSpace(p)
		if p != "" {
			out = append(out, p)
		}
	}
	return out
}

// splitTop splits on commas not nested in brackets.
func splitTop(s string) []string {
	var out []string
	depth := 0
	start := 0
	for i := 0; i < len(s); i++ {
		switch s[i] {
		case '(', '[', '{':
			depth++
		case ')', ']', '}':
			depth--
		case ',':
			if depth == 0 {
				out = append(out, strings.TrimSpace(s[start:i]))
				start = i + 1
			}
		}
	}
	if strings.TrimSpace(s[start:]) != "" {
		out = append(out, strings.TrimSpace(s[start:]))
	}
	return out
}

func parseFuncHeader(s string) (*FuncSpec, error) {
	s = strings.TrimSpace(s)
	i := 0
	if strings.HasPrefix(s, "(") { // receiver part "(*T).M" or "(T).M"
		j := strings.Index(s, ")")
		if j < 0 {
			return nil, fmt.Errorf("bad receiver in %q", s)
		}
		i = j + 1
	}
	op := strings.Index(s[i:], "(")
	if op < 0 {
		return nil, fmt.Errorf("func header needs a parameter list: %q", s)
	}
	op += i
	cl := strings.Index(s[op:], ")")
	if cl < 0 {
		return nil, fmt.Errorf("unterminated parameter list")
	}
	cl += op
	fs := &FuncSpec{Name: strings.TrimSpace(s[:op])}
	fs.Params = splitList(s[op+1 : cl])
	res := strings.TrimSpace(s[cl+1:])
	res = strings.Trim(res, "()")
	fs.Results = splitList(res)
	return fs, nil
}

func parseParams(s string) ([]Param, error) {
	var ps []Param
	for _, part := range splitList(s) {
		f := strings.Fields(part)
		if len(f) != 2 {
			return nil, fmt.Errorf("parameter %q: expected 'name type'", part)
		}
		ps = append(ps, Param{f[0], f[1]})
	}
	return ps, nil
}

func parseSpecFn(s string) (*SpecFn, error) {
	op := strings.Index(s, "(")
	cl := strings.Index(s, ")")
	if op < 0 || cl < op {
		return nil, fmt.Errorf("spec: expected name(params) type [= body]")
	}
	sf := &SpecFn{Name: strings.TrimSpace(s[:op])}
	ps, err := parseParams(s[op+1 : cl])
	if err != nil {
		return nil, err
	}
	sf.Params = ps
	rest := strings.TrimSpace(s[cl+1:])
	if eq := strings.Index(rest, "="); eq >= 0 && !strings.HasPrefix(rest[eq:], "==") {
		sf.Ret = strings.TrimSpace(rest[:eq])
		b, err := ParseExpr(rest[eq+1:])
		if err != nil {
			return nil, err
		}
		sf.Body = b
	} else {
		sf.Ret = rest
	}
	if sf.Ret == "" {
		return nil, fmt.Errorf("spec %s: missing result type", sf.Name)
	}
	return sf, nil
}

func parseLemma(s string) (*Lemma, error) {
	op := strings.Index(s, "(")
	cl := strings.Index(s, ")")
	if op < 0 || cl < op {
		return nil, fmt.Errorf("lemma: expected name(params): expr")
	}
	lm := &Lemma{Name: strings.TrimSpace(s[:op])}
	ps, err := parseParams(s[op+1 : cl])
	if err != nil {
		return nil, err
	}
	lm.Params = ps
	rest := strings.TrimSpace(s[cl+1:])
	if !strings.HasPrefix(rest, ":") {
		return nil, fmt.Errorf("lemma: expected ':' after parameters")
	}
	e, err := ParseExpr(rest[1:])
	if err != nil {
		return nil, err
	}
	lm.E = e
	return lm, nil
}
