package smt

import (
	"bytes"
	"context"
	"fmt"
	"os"
	"os/exec"
	"path/filepath"
	"strings"
	"sync"
	"time"
)

// Prelude is the fixed background theory (sequences, slices).
const Prelude = `
(declare-sort BSeq 0)
(declare-datatypes ((Slice 0)) (((mkslice (sl_arr Int) (sl_off Int) (sl_len Int) (sl_cap Int)))))
(declare-fun slen (BSeq) Int)
(declare-fun sat (BSeq Int) Int)
(declare-const sempty BSeq)
(declare-fun scat (BSeq BSeq) BSeq)
(declare-fun ssub (BSeq Int Int) BSeq)
(declare-fun sunit (Int) BSeq)
(declare-fun supd (BSeq Int Int) BSeq)
(declare-fun seqeq (BSeq BSeq) Bool)
(assert (forall ((s BSeq)) (! (>= (slen s) 0) :pattern ((slen s)))))
(assert (= (slen sempty) 0))
(assert (forall ((s BSeq)) (! (=> (= (slen s) 0) (= s sempty)) :pattern ((slen s)))))
(assert (forall ((x Int)) (! (and (= (slen (sunit x)) 1) (= (sat (sunit x) 0) x)) :pattern ((sunit x)))))
(assert (forall ((a BSeq) (b BSeq)) (! (= (slen (scat a b)) (+ (slen a) (slen b))) :pattern ((scat a b)))))
(assert (forall ((a BSeq) (b BSeq) (i Int)) (! (= (sat (scat a b) i) (ite (< i (slen a)) (sat a i) (sat b (- i (slen a))))) :pattern ((sat (scat a b) i)))))
(assert (forall ((s BSeq) (a Int) (b Int)) (! (=> (and (<= 0 a) (<= a b) (<= b (slen s))) (= (slen (ssub s a b)) (- b a))) :pattern ((ssub s a b)))))
(assert (forall ((s BSeq) (a Int) (b Int) (i Int)) (! (=> (and (<= 0 a) (<= a b) (<= b (slen s)) (<= 0 i) (< i (- b a))) (= (sat (ssub s a b) i) (sat s (+ a i)))) :pattern ((sat (ssub s a b) i)))))
(assert (forall ((s BSeq) (i Int) (v Int)) (! (= (slen (supd s i v)) (slen s)) :pattern ((supd s i v)))))
(assert (forall ((s BSeq) (i Int) (v Int) (j Int)) (! (= (sat (supd s i v) j) (ite (= i j) v (sat s j))) :pattern ((sat (supd s i v) j)))))
(assert (forall ((a BSeq) (b BSeq)) (! (= (seqeq a b) (and (= (slen a) (slen b)) (forall ((i Int)) (! (=> (and (<= 0 i) (< i (slen a))) (= (sat a i) (sat b i))) :pattern ((sat a i)) :pattern ((sat b i)))))) :pattern ((seqeq a b)))))
(assert (forall ((a BSeq) (b BSeq)) (! (=> (seqeq a b) (= a b)) :pattern ((seqeq a b)))))
(assert (forall ((s BSeq)) (! (= (ssub s 0 (slen s)) s) :pattern ((ssub s 0 (slen s))))))
(assert (forall ((a BSeq) (b BSeq) (n Int)) (! (=> (= n (+ (slen a) (slen b))) (= (ssub (scat a b) (slen a) n) b)) :pattern ((ssub (scat a b) (slen a) n)))))
(assert (forall ((a BSeq) (b BSeq)) (! (= (ssub (scat a b) 0 (slen a)) a) :pattern ((ssub (scat a b) 0 (slen a))))))
(assert (forall ((a BSeq)) (! (and (= (scat a sempty) a) (= (scat sempty a) a)) :pattern ((scat a sempty)) :pattern ((scat sempty a)))))
(declare-fun satoff (BSeq Int Int) Int)
(assert (forall ((b BSeq) (o Int) (i Int)) (! (= (satoff b o i) (sat b (+ o i))) :pattern ((satoff b o i)))))
; immutable lists of strings
(declare-sort SList 0)
(declare-fun llen (SList) Int)
(declare-fun lat (SList Int) BSeq)
(declare-const lnil SList)
(declare-fun lapp (SList SList) SList)
(declare-fun lsub (SList Int Int) SList)
(declare-fun lunit (BSeq) SList)
(declare-fun lupd (SList Int BSeq) SList)
(declare-fun leq (SList SList) Bool)
(assert (forall ((l SList)) (! (>= (llen l) 0) :pattern ((llen l)))))
(assert (= (llen lnil) 0))
(assert (forall ((l SList)) (! (=> (= (llen l) 0) (= l lnil)) :pattern ((llen l)))))
(assert (forall ((x BSeq)) (! (and (= (llen (lunit x)) 1) (= (lat (lunit x) 0) x)) :pattern ((lunit x)))))
(assert (forall ((a SList) (b SList)) (! (= (llen (lapp a b)) (+ (llen a) (llen b))) :pattern ((lapp a b)))))
(assert (forall ((a SList) (b SList) (i Int)) (! (= (lat (lapp a b) i) (ite (< i (llen a)) (lat a i) (lat b (- i (llen a))))) :pattern ((lat (lapp a b) i)) :pattern ((lat a i) (lapp a b)))))
(assert (forall ((s SList) (a Int) (b Int)) (! (=> (and (<= 0 a) (<= a b) (<= b (llen s))) (= (llen (lsub s a b)) (- b a))) :pattern ((lsub s a b)))))
(assert (forall ((s SList) (a Int) (b Int) (i Int)) (! (=> (and (<= 0 a) (<= a b) (<= b (llen s)) (<= 0 i) (< i (- b a))) (= (lat (lsub s a b) i) (lat s (+ a i)))) :pattern ((lat (lsub s a b) i)))))
(assert (forall ((s SList) (i Int) (v BSeq)) (! (= (llen (lupd s i v)) (llen s)) :pattern ((lupd s i v)))))
(assert (forall ((s SList) (i Int) (v BSeq) (j Int)) (! (= (lat (lupd s i v) j) (ite (= i j) v (lat s j))) :pattern ((lat (lupd s i v) j)))))
(assert (forall ((a SList) (b SList)) (! (= (leq a b) (and (= (llen a) (llen b)) (forall ((i Int)) (! (=> (and (<= 0 i) (< i (llen a))) (= (lat a i) (lat b i))) :pattern ((lat a i)) :pattern ((lat b i)))))) :pattern ((leq a b)))))
(assert (forall ((a SList) (b SList)) (! (=> (leq a b) (= a b)) :pattern ((leq a b)))))
(assert (forall ((s SList)) (! (= (lsub s 0 (llen s)) s) :pattern ((lsub s 0 (llen s))))))
(assert (forall ((a SList) (b SList) (c SList)) (! (= (lapp (lapp a b) c) (lapp a (lapp b c))) :pattern ((lapp (lapp a b) c)))))
(assert (forall ((a SList) (s SList)) (! (=> (= (llen s) 1) (= s (lunit (lat s 0)))) :pattern ((lapp a s)))))
(assert (forall ((a SList) (b SList) (j Int)) (! (=> (and (<= 0 j) (< j (llen b))) (= (lat (lapp a b) (+ j (llen a))) (lat b j))) :pattern ((lat b j) (lapp a b)))))
; Go's truncated division / remainder on top of SMT-LIB's Euclidean ones
(define-fun gdiv ((a Int) (b Int)) Int (ite (>= a 0) (div a b) (- (div (- a) b))))
(define-fun gmod ((a Int) (b Int)) Int (- a (* b (gdiv a b))))
; bit operations on non-negative ints: only the facts needed for flag bytes
(declare-fun band (Int Int) Int)
(declare-fun bor (Int Int) Int)
(declare-fun bxor (Int Int) Int)
(define-fun bit ((x Int) (p Int)) Bool (= (mod (div x p) 2) 1))
(assert (forall ((x Int)) (! (=> (>= x 0) (= (band x 1) (ite (bit x 1) 1 0))) :pattern ((band x 1)))))
(assert (forall ((x Int)) (! (=> (>= x 0) (= (band x 2) (ite (bit x 2) 2 0))) :pattern ((band x 2)))))
(assert (forall ((x Int)) (! (=> (>= x 0) (= (band x 128) (ite (bit x 128) 128 0))) :pattern ((band x 128)))))
`

type Result struct {
	Status  string // "unsat", "sat", "unknown", "timeout", "error"
	Solver  string
	Seconds float64
	Output  string            // raw solver output (truncated)
	Values  map[string]string // from get-value, on sat
	All     map[string]string // status per solver (thorough)
}

type Solver struct {
	Name string
	Argv func(file string, timeoutS int) []string
	Head string // solver-specific header
}

var Solvers = []Solver{
	{Name: "z3-new", Argv: func(f string, t int) []string { return []string{"z3-new", fmt.Sprintf("-T:%d", t), f} },
		Head: "(set-option :smt.mbqi false)\n(set-option :smt.auto_config false)\n(set-logic ALL)\n"},
	{Name: "z3", Argv: func(f string, t int) []string { return []string{"z3", fmt.Sprintf("-T:%d", t), f} },
		Head: "(set-option :smt.mbqi false)\n(set-option :smt.auto_config false)\n(set-logic ALL)\n"},
	{Name: "cvc5", Argv: func(f string, t int) []string {
		return []string{"cvc5", fmt.Sprintf("--tlimit=%d", t*1000), "--produce-models", f}
	}, Head: "(set-logic ALL)\n"},
}

// Query is one check-sat problem.
type Query struct {
	Name     string
	Body     string   // declarations + assertions (without header/prelude)
	GetValue []string // constants to evaluate on sat
}

// Run races the given solvers on q. If all is true every solver is run to
// completion and disagreement (sat vs unsat) is reported as status "error".
func Run(dir string, q Query, solvers []Solver, timeoutS int, all bool) Result {
	type one struct {
		r Result
	}
	ctx, cancel := context.WithCancel(context.Background())
	defer cancel()
	ch := make(chan Result, len(solvers))
	var wg sync.WaitGroup
	for _, sv := range solvers {
		wg.Add(1)
		go func(sv Solver) {
			defer wg.Done()
			ch <- runOne(ctx, dir, q, sv, timeoutS)
		}(sv)
	}
	go func() { wg.Wait(); close(ch) }()
	best := Result{Status: "unknown", All: map[string]string{}}
	var got []Result
	for r := range ch {
		got = append(got, r)
		best.All[r.Solver] = r.Status
		if r.Status == "unsat" || r.Status == "sat" {
			if !all {
				cancel()
				all := best.All
				best = r
				best.All = all
				// drain
				go func() {
					for range ch {
					}
				}()
				return best
			}
		}
	}
	// all mode or nothing definitive
	var sat, unsat *Result
	for i := range got {
		switch got[i].Status {
		case "sat":
			sat = &got[i]
		case "unsat":
			if unsat == nil || got[i].Seconds < unsat.Seconds {
				unsat = &got[i]
			}
		}
	}
	allm := best.All
	switch {
	case sat != nil && unsat != nil:
		best = Result{Status: "error", Output: "solver disagreement: " + sat.Solver + "=sat " + unsat.Solver + "=unsat"}
	case unsat != nil:
		best = *unsat
	case sat != nil:
		best = *sat
	default:
		best = Result{Status: "unknown"}
		allErr := len(got) > 0
		for _, r := range got {
			if r.Status != "error" {
				allErr = false
			}
		}
		if allErr {
			// every solver rejected the query (malformed script): an engine fault, not a verdict
			best.Status = "error"
		}
		for _, r := range got {
			if r.Status == "timeout" {
				best.Status = "timeout"
			}
			best.Output += r.Solver + ": " + firstLine(r.Output) + "; "
			if r.Seconds > best.Seconds {
				best.Seconds = r.Seconds
			}
		}
	}
	best.All = allm
	return best
}

func firstLine(s string) string {
	s = strings.TrimSpace(s)
	if i := strings.IndexByte(s, '\n'); i >= 0 {
		return s[:i]
	}
	return s
}

func runOne(ctx context.Context, dir string, q Query, sv Solver, timeoutS int) Result {
	var sb strings.Builder
	if len(q.GetValue) > 0 {
		sb.WriteString("(set-option :produce-models true)\n")
	}
	sb.WriteString(sv.Head)
	sb.WriteString(Prelude)
	sb.WriteString(q.Body)
	sb.WriteString("(check-sat)\n")
	if len(q.GetValue) > 0 {
		sb.WriteString("(get-value (" + strings.Join(q.GetValue, " ") + "))\n")
	}
	file := filepath.Join(dir, Ident(q.Name)+"."+sv.Name+".smt2")
	if len(file) > 200 {
		file = filepath.Join(dir, fmt.Sprintf("q%x.%s.smt2", hash(q.Name), sv.Name))
	}
	if err := os.WriteFile(file, []byte(sb.String()), 0o644); err != nil {
		return Result{Status: "error", Solver: sv.Name, Output: err.Error()}
	}
	argv := sv.Argv(file, timeoutS)
	cctx, cancel := context.WithTimeout(ctx, time.Duration(timeoutS+2)*time.Second)
	defer cancel()
	cmd := exec.CommandContext(cctx, argv[0], argv[1:]...)
	var out bytes.Buffer
	cmd.Stdout = &out
	cmd.Stderr = &out
	start := time.Now()
	_ = cmd.Run()
	el := time.Since(start).Seconds()
	text := out.String()
	res := Result{Solver: sv.Name, Seconds: el, Output: trunc(text, 4000)}
	switch fl := firstLine(text); {
	case fl == "unsat":
		res.Status = "unsat"
	case fl == "sat":
		res.Status = "sat"
		res.Values = parseValues(text)
	case fl == "timeout" || cctx.Err() != nil || strings.Contains(fl, "interrupted") || strings.Contains(fl, "timeout"):
		res.Status = "timeout"
	case fl == "unknown":
		res.Status = "unknown"
	default:
		res.Status = "error"
	}
	return res
}

func hash(s string) uint32 {
	h := uint32(2166136261)
	for i := 0; i < len(s); i++ {
		h = (h ^ uint32(s[i])) * 16777619
	}
	return h
}

func trunc(s string, n int) string {
	if len(s) > n {
		return s[:n] + "…"
	}
	return s
}

// parseValues parses "((a 1) (b (- 2)) ...)" loosely into name -> text.
func parseValues(out string) map[string]string {
	i := strings.Index(out, "((")
	if i < 0 {
		return nil
	}
	s := out[i+1:]
	vals := map[string]string{}
	for {
		s = strings.TrimLeft(s, " \n\t")
		if !strings.HasPrefix(s, "(") {
			break
		}
		// find matching paren
		depth := 0
		end := -1
		for j := 0; j < len(s); j++ {
			if s[j] == '(' {
				depth++
			} else if s[j] == ')' {
				depth--
				if depth == 0 {
					end = j
					break
				}
			}
		}
		if end < 0 {
			break
		}
		pair := s[1:end]
		s = s[end+1:]
		sp := strings.IndexAny(pair, " \n\t")
		if sp < 0 {
			continue
		}
		vals[pair[:sp]] = strings.TrimSpace(pair[sp+1:])
	}
	return vals
}
