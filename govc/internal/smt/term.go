// Package smt is a small SMT-LIB term layer: sorted terms with light
// simplification, an ordered script of declarations / definitions / assertions
// and a printer.
package smt

import (
	"fmt"
	"sort"
	"strconv"
	"strings"
)

// Sort is the SMT-LIB spelling of a sort.
type Sort string

const (
	Int   Sort = "Int"
	Bool  Sort = "Bool"
	Seq   Sort = "BSeq"   // uninterpreted sequences of Int (Boogie style axioms in the prelude)
	Slice Sort = "Slice" // datatype (mkslice arr off len cap)
	SList Sort = "SList" // immutable lists of strings ([]string by value)
)

func Arr(k, v Sort) Sort { return Sort("(Array " + string(k) + " " + string(v) + ")") }

// ArrParts splits an array sort.
func ArrParts(s Sort) (k, v Sort, ok bool) {
	str := string(s)
	if !strings.HasPrefix(str, "(Array ") {
		return "", "", false
	}
	body := str[len("(Array ") : len(str)-1]
	// first component: either an atom or a parenthesised sort
	depth := 0
	for i, c := range body {
		switch c {
		case '(':
			depth++
		case ')':
			depth--
		case ' ':
			if depth == 0 {
				return Sort(body[:i]), Sort(body[i+1:]), true
			}
		}
	}
	return "", "", false
}

type Term struct {
	Op   string
	Args []*Term
	Sort Sort
	// Binder data for quantifiers / let.
	Vars     []*Term   // bound variables (Op=name)
	Triggers [][]*Term // optional patterns
}

func (t *Term) String() string {
	var sb strings.Builder
	t.write(&sb)
	return sb.String()
}

func (t *Term) write(sb *strings.Builder) {
	switch t.Op {
	case "forall", "exists":
		sb.WriteString("(" + t.Op + " (")
		for _, v := range t.Vars {
			sb.WriteString("(" + v.Op + " " + string(v.Sort) + ")")
		}
		sb.WriteString(") ")
		if len(t.Triggers) > 0 {
			sb.WriteString("(! ")
		}
		t.Args[0].write(sb)
		if len(t.Triggers) > 0 {
			for _, tr := range t.Triggers {
				sb.WriteString(" :pattern (")
				for i, p := range tr {
					if i > 0 {
						sb.WriteByte(' ')
					}
					p.write(sb)
				}
				sb.WriteString(")")
			}
			sb.WriteString(")")
		}
		sb.WriteString(")")
		return
	}
	if len(t.Args) == 0 {
		sb.WriteString(t.Op)
		return
	}
	sb.WriteByte('(')
	sb.WriteString(t.Op)
	for _, a := range t.Args {
		sb.WriteByte(' ')
		a.write(sb)
	}
	sb.WriteByte(')')
}

// ---- constructors -------------------------------------------------------

var (
	True  = &Term{Op: "true", Sort: Bool}
	False = &Term{Op: "false", Sort: Bool}
)

func IntLit(v int64) *Term {
	if v < 0 {
		if v == -9223372036854775808 {
			return &Term{Op: "(- 9223372036854775808)", Sort: Int}
		}
		return &Term{Op: "(- " + strconv.FormatInt(-v, 10) + ")", Sort: Int}
	}
	return &Term{Op: strconv.FormatInt(v, 10), Sort: Int}
}

// BigLit makes an integer literal from a decimal string (may be negative).
func BigLit(dec string) *Term {
	if strings.HasPrefix(dec, "-") {
		return &Term{Op: "(- " + dec[1:] + ")", Sort: Int}
	}
	return &Term{Op: dec, Sort: Int}
}

func (t *Term) IsIntLit() (int64, bool) {
	if t.Sort != Int || len(t.Args) != 0 {
		return 0, false
	}
	s := t.Op
	neg := false
	if strings.HasPrefix(s, "(- ") {
		neg = true
		s = s[3 : len(s)-1]
	}
	v, err := strconv.ParseInt(s, 10, 64)
	if err != nil {
		return 0, false
	}
	if neg {
		v = -v
	}
	return v, true
}

func Const(name string, s Sort) *Term { return &Term{Op: name, Sort: s} }

func App(op string, s Sort, args ...*Term) *Term {
	for _, a := range args {
		if a == nil {
			panic("smt.App: nil argument to " + op)
		}
	}
	return &Term{Op: op, Args: args, Sort: s}
}

func BoolLit(b bool) *Term {
	if b {
		return True
	}
	return False
}

func Not(a *Term) *Term {
	switch {
	case a == True:
		return False
	case a == False:
		return True
	case a.Op == "not":
		return a.Args[0]
	}
	mustSort(a, Bool, "not")
	return App("not", Bool, a)
}

func And(as ...*Term) *Term {
	var out []*Term
	for _, a := range as {
		if a == nil {
			continue
		}
		mustSort(a, Bool, "and")
		if a == True {
			continue
		}
		if a == False {
			return False
		}
		if a.Op == "and" {
			out = append(out, a.Args...)
		} else {
			out = append(out, a)
		}
	}
	switch len(out) {
	case 0:
		return True
	case 1:
		return out[0]
	}
	return App("and", Bool, out...)
}

func Or(as ...*Term) *Term {
	var out []*Term
	for _, a := range as {
		if a == nil {
			continue
		}
		mustSort(a, Bool, "or")
		if a == False {
			continue
		}
		if a == True {
			return True
		}
		if a.Op == "or" {
			out = append(out, a.Args...)
		} else {
			out = append(out, a)
		}
	}
	switch len(out) {
	case 0:
		return False
	case 1:
		return out[0]
	}
	return App("or", Bool, out...)
}

func Implies(a, b *Term) *Term {
	if a == True {
		return b
	}
	if a == False || b == True {
		return True
	}
	mustSort(a, Bool, "=>")
	mustSort(b, Bool, "=>")
	return App("=>", Bool, a, b)
}

func Iff(a, b *Term) *Term { return Eq(a, b) }

func Eq(a, b *Term) *Term {
	if a.Sort != b.Sort {
		panic(fmt.Sprintf("smt.Eq: sort mismatch %s:%s vs %s:%s", a, a.Sort, b, b.Sort))
	}
	if a == b {
		return True
	}
	if x, ok := a.IsIntLit(); ok {
		if y, ok := b.IsIntLit(); ok {
			return BoolLit(x == y)
		}
	}
	if a.Sort == Bool {
		if a == True {
			return b
		}
		if b == True {
			return a
		}
		if a == False {
			return Not(b)
		}
		if b == False {
			return Not(a)
		}
	}
	if len(a.Args) == 0 && len(b.Args) == 0 && a.Op == b.Op {
		return True
	}
	return App("=", Bool, a, b)
}

func Neq(a, b *Term) *Term { return Not(Eq(a, b)) }

func Ite(c, a, b *Term) *Term {
	if c == True {
		return a
	}
	if c == False {
		return b
	}
	if a.Sort != b.Sort {
		panic(fmt.Sprintf("smt.Ite: sort mismatch %s:%s vs %s:%s", a, a.Sort, b, b.Sort))
	}
	if a == b {
		return a
	}
	if a.Sort == Bool {
		if a == True && b == False {
			return c
		}
		if a == False && b == True {
			return Not(c)
		}
	}
	return App("ite", a.Sort, c, a, b)
}

func arith(op string, a, b *Term) *Term {
	mustSort(a, Int, op)
	mustSort(b, Int, op)
	return App(op, Int, a, b)
}

// IsLitIte reports whether t is an ite chain whose leaves are integer literals.
func IsLitIte(t *Term) bool {
	if t.Op != "ite" {
		_, ok := t.IsIntLit()
		return ok
	}
	return IsLitIte(t.Args[1]) && IsLitIte(t.Args[2])
}

// MapIte applies f to the leaves of an ite chain.
func MapIte(t *Term, f func(*Term) *Term) *Term {
	if t.Op != "ite" {
		return f(t)
	}
	return Ite(t.Args[0], MapIte(t.Args[1], f), MapIte(t.Args[2], f))
}

func Add(a, b *Term) *Term {
	if x, ok := a.IsIntLit(); ok {
		if y, ok := b.IsIntLit(); ok {
			s := x + y
			if (s > x) == (y > 0) { // no overflow
				return IntLit(s)
			}
		}
		if x == 0 {
			return b
		}
	}
	if y, ok := b.IsIntLit(); ok && y == 0 {
		return a
	}
	return arith("+", a, b)
}

func Sub(a, b *Term) *Term {
	if x, ok := a.IsIntLit(); ok {
		if y, ok := b.IsIntLit(); ok {
			s := x - y
			if (s < x) == (y > 0) {
				return IntLit(s)
			}
		}
	}
	if y, ok := b.IsIntLit(); ok && y == 0 {
		return a
	}
	return arith("-", a, b)
}

func Mul(a, b *Term) *Term {
	if x, ok := a.IsIntLit(); ok {
		if y, ok := b.IsIntLit(); ok {
			if x == 0 || y == 0 {
				return IntLit(0)
			}
			p := x * y
			if p/y == x && !(x == -1 && y == -9223372036854775808) && !(y == -1 && x == -9223372036854775808) {
				return IntLit(p)
			}
		}
		if x == 1 {
			return b
		}
	}
	if y, ok := b.IsIntLit(); ok && y == 1 {
		return a
	}
	if b.Op == "ite" && IsLitIte(b) {
		return MapIte(b, func(l *Term) *Term { return Mul(a, l) })
	}
	if a.Op == "ite" && IsLitIte(a) {
		return MapIte(a, func(l *Term) *Term { return Mul(l, b) })
	}
	return arith("*", a, b)
}

func Neg(a *Term) *Term {
	if x, ok := a.IsIntLit(); ok && x != -9223372036854775808 {
		return IntLit(-x)
	}
	mustSort(a, Int, "-")
	return App("-", Int, a)
}

// Div and Mod are SMT-LIB (Euclidean) div/mod; Go's truncated versions are
// built on top of them by the VC generator.
func Div(a, b *Term) *Term { return arith("div", a, b) }
func Mod(a, b *Term) *Term { return arith("mod", a, b) }

func cmp(op string, a, b *Term) *Term {
	mustSort(a, Int, op)
	mustSort(b, Int, op)
	if x, ok := a.IsIntLit(); ok {
		if y, ok := b.IsIntLit(); ok {
			switch op {
			case "<":
				return BoolLit(x < y)
			case "<=":
				return BoolLit(x <= y)
			case ">":
				return BoolLit(x > y)
			case ">=":
				return BoolLit(x >= y)
			}
		}
	}
	return App(op, Bool, a, b)
}

func Lt(a, b *Term) *Term { return cmp("<", a, b) }
func Le(a, b *Term) *Term { return cmp("<=", a, b) }
func Gt(a, b *Term) *Term { return cmp(">", a, b) }
func Ge(a, b *Term) *Term { return cmp(">=", a, b) }

func Select(a, i *Term) *Term {
	k, v, ok := ArrParts(a.Sort)
	if !ok {
		panic("smt.Select on non-array " + a.String() + " : " + string(a.Sort))
	}
	if i.Sort != k {
		panic(fmt.Sprintf("smt.Select: index sort %s, want %s (%s)", i.Sort, k, a))
	}
	// select over store with syntactically equal / literal-distinct index
	for a.Op == "store" {
		j := a.Args[1]
		if j == i || (len(j.Args) == 0 && len(i.Args) == 0 && j.Op == i.Op) || sameRef(i, j) {
			return a.Args[2]
		}
		if distinctRefs(i, j) {
			a = a.Args[0]
			continue
		}
		break
	}
	return App("select", v, a, i)
}

// wmForm recognises watermark-relative references (+ wm_k (- n)).
func wmForm(t *Term) (base string, off int64, ok bool) {
	if t.Op == "+" && len(t.Args) == 2 && len(t.Args[0].Args) == 0 && strings.HasPrefix(t.Args[0].Op, "wm_") {
		if n, isLit := t.Args[1].IsIntLit(); isLit {
			return t.Args[0].Op, n, true
		}
	}
	return "", 0, false
}

func sameRef(i, j *Term) bool {
	b1, o1, w1 := wmForm(i)
	b2, o2, w2 := wmForm(j)
	return w1 && w2 && b1 == b2 && o1 == o2
}

// distinctRefs: syntactically certain that two index terms differ.
func distinctRefs(i, j *Term) bool {
	x, ok1 := i.IsIntLit()
	y, ok2 := j.IsIntLit()
	if ok1 && ok2 {
		return x != y
	}
	b1, o1, w1 := wmForm(i)
	b2, o2, w2 := wmForm(j)
	switch {
	case w1 && w2:
		return b1 == b2 && o1 != o2
	case w1 && ok2, w2 && ok1:
		return true // a literal is never below a loop watermark
	}
	return false
}

func Store(a, i, v *Term) *Term {
	k, vs, ok := ArrParts(a.Sort)
	if !ok {
		panic("smt.Store on non-array " + a.String())
	}
	if i.Sort != k || v.Sort != vs {
		panic(fmt.Sprintf("smt.Store: sorts idx %s val %s into %s", i.Sort, v.Sort, a.Sort))
	}
	return App("store", a.Sort, a, i, v)
}

func Forall(vars []*Term, body *Term, triggers ...[]*Term) *Term {
	if len(vars) == 0 {
		return body
	}
	if body == True {
		return True
	}
	return &Term{Op: "forall", Args: []*Term{body}, Sort: Bool, Vars: vars, Triggers: triggers}
}

func Exists(vars []*Term, body *Term) *Term {
	if len(vars) == 0 {
		return body
	}
	return &Term{Op: "exists", Args: []*Term{body}, Sort: Bool, Vars: vars}
}

func mustSort(t *Term, s Sort, op string) {
	if t.Sort != s {
		panic(fmt.Sprintf("smt: operand of %s has sort %s, want %s: %s", op, t.Sort, s, t))
	}
}

// ---- slices (datatype) ----------------------------------------------------

func MkSlice(arr, off, ln, cp *Term) *Term { return App("mkslice", Slice, arr, off, ln, cp) }
func SlArr(s *Term) *Term {
	if s.Op == "mkslice" {
		return s.Args[0]
	}
	return App("sl_arr", Int, s)
}
func SlOff(s *Term) *Term {
	if s.Op == "mkslice" {
		return s.Args[1]
	}
	return App("sl_off", Int, s)
}
func SlLen(s *Term) *Term {
	if s.Op == "mkslice" {
		return s.Args[2]
	}
	return App("sl_len", Int, s)
}
func SlCap(s *Term) *Term {
	if s.Op == "mkslice" {
		return s.Args[3]
	}
	return App("sl_cap", Int, s)
}

// ---- sequences --------------------------------------------------------------

var SEmpty = Const("sempty", Seq)

func SLen(s *Term) *Term {
	mustSort(s, Seq, "slen")
	if s == SEmpty {
		return IntLit(0)
	}
	return App("slen", Int, s)
}
func SAt(s, i *Term) *Term {
	mustSort(s, Seq, "sat")
	// literal-index simplifications through supd / ssub / sunit / scat-of-units
	for {
		j, ok := i.IsIntLit()
		if !ok {
			break
		}
		switch s.Op {
		case "supd":
			if k, ok := s.Args[1].IsIntLit(); ok {
				if k == j {
					return s.Args[2]
				}
				s = s.Args[0]
				continue
			}
		case "ssub":
			if a, ok := s.Args[1].IsIntLit(); ok && a >= 0 && j >= 0 {
				if b, ok := s.Args[2].IsIntLit(); ok && j < b-a {
					s, i = s.Args[0], IntLit(a+j)
					continue
				}
			}
		case "sunit":
			if j == 0 {
				return s.Args[0]
			}
		}
		break
	}
	return App("sat", Int, s, i)
}
func SCat(a, b *Term) *Term {
	if a == SEmpty {
		return b
	}
	if b == SEmpty {
		return a
	}
	return App("scat", Seq, a, b)
}
func SSub(s, a, b *Term) *Term { mustSort(s, Seq, "ssub"); return App("ssub", Seq, s, a, b) }
func SUnit(x *Term) *Term      { return App("sunit", Seq, x) }
func SUpd(s, i, v *Term) *Term { return App("supd", Seq, s, i, v) }
func SEq(a, b *Term) *Term {
	if a == b {
		return True
	}
	return App("seqeq", Bool, a, b)
}

// ---- script -----------------------------------------------------------------

type ItemKind int

const (
	KDecl ItemKind = iota // declare-fun / declare-const
	KDef                  // define-fun name () sort term
	KAssert
	KComment
)

type Item struct {
	Kind    ItemKind
	Name    string
	ArgS    []Sort
	Sort    Sort
	Term    *Term
	Comment string
}

func (it Item) String() string {
	switch it.Kind {
	case KDecl:
		as := make([]string, len(it.ArgS))
		for i, s := range it.ArgS {
			as[i] = string(s)
		}
		return fmt.Sprintf("(declare-fun %s (%s) %s)", it.Name, strings.Join(as, " "), it.Sort)
	case KDef:
		return fmt.Sprintf("(define-fun %s () %s %s)", it.Name, it.Sort, it.Term)
	case KAssert:
		if it.Comment != "" {
			return fmt.Sprintf("; %s\n(assert %s)", it.Comment, it.Term)
		}
		return fmt.Sprintf("(assert %s)", it.Term)
	default:
		return "; " + it.Comment
	}
}

// Script is an ordered list of items with fresh-name management.
type Script struct {
	Items []Item
	names map[string]int
	decl  map[string]bool
	Defs  map[string]*Term // definitions by name
}

func NewScript() *Script {
	return &Script{names: map[string]int{}, decl: map[string]bool{}, Defs: map[string]*Term{}}
}

var identRepl = strings.NewReplacer("*", "p", "(", "_", ")", "_", ".", "_", "/", "_", " ", "_", "$", "_", "[", "_", "]", "_", ",", "_", "#", "_", "-", "_", ":", "_", "@", "_", "\"", "_", "{", "_", "}", "_", "|", "_", "'", "_", "<", "_", ">", "_", "=", "_", "!", "_", "~", "_", "+", "_", "&", "_", "%", "_", "^", "_", "\\", "_", ";", "_", "?", "_")

// Ident makes a string safe as an SMT-LIB simple symbol.
func Ident(s string) string {
	s = identRepl.Replace(s)
	// SMT-LIB simple symbols are ASCII: anything else becomes '_'
	out := []byte(s)
	for i, c := range out {
		if c < 0x21 || c > 0x7e || c == '|' || c == '\\' || c == '"' || c == ';' || c == '(' || c == ')' {
			out[i] = '_'
		}
	}
	return string(out)
}

// Fresh returns a new declared constant.
func (s *Script) Fresh(hint string, sort Sort) *Term {
	name := s.freshName(hint)
	s.Items = append(s.Items, Item{Kind: KDecl, Name: name, Sort: sort})
	s.decl[name] = true
	return Const(name, sort)
}

func (s *Script) freshName(hint string) string {
	hint = Ident(hint)
	n := s.names[hint]
	s.names[hint] = n + 1
	name := hint
	if n > 0 || hint == "" {
		name = fmt.Sprintf("%s!%d", hint, n)
	}
	for s.decl[name] {
		n = s.names[hint]
		s.names[hint] = n + 1
		name = fmt.Sprintf("%s!%d", hint, n)
	}
	return name
}

// Define names a term (define-fun) and returns the constant standing for it.
// Literals and constants are returned unchanged.
func (s *Script) Define(hint string, t *Term) *Term {
	if len(t.Args) == 0 && t.Op != "forall" && t.Op != "exists" {
		return t
	}
	name := s.freshName(hint)
	s.decl[name] = true
	s.Items = append(s.Items, Item{Kind: KDef, Name: name, Sort: t.Sort, Term: t})
	s.Defs[name] = t
	return Const(name, t.Sort)
}

// DeclareFun declares an uninterpreted function once.
func (s *Script) DeclareFun(name string, args []Sort, res Sort) {
	if s.decl[name] {
		return
	}
	s.decl[name] = true
	s.Items = append(s.Items, Item{Kind: KDecl, Name: name, ArgS: args, Sort: res})
}

func (s *Script) Declared(name string) bool { return s.decl[name] }

// FreshFun declares a new uninterpreted function and returns its name.
func (s *Script) FreshFun(hint string, args []Sort, res Sort) string {
	name := s.freshName(hint)
	s.DeclareFun(name, args, res)
	return name
}

func (s *Script) Assert(t *Term, comment string) {
	if t == True {
		return
	}
	s.Items = append(s.Items, Item{Kind: KAssert, Term: t, Comment: comment})
}

func (s *Script) Comment(c string) { s.Items = append(s.Items, Item{Kind: KComment, Comment: c}) }

// Len is the current position (used to cut the script for an obligation).
func (s *Script) Len() int { return len(s.Items) }

// Text renders items [0,n).
func (s *Script) Text(n int) string {
	var sb strings.Builder
	for _, it := range s.Items[:n] {
		sb.WriteString(it.String())
		sb.WriteByte('\n')
	}
	return sb.String()
}

// SortedKeys is a helper for deterministic iteration.
func SortedKeys[V any](m map[string]V) []string {
	ks := make([]string, 0, len(m))
	for k := range m {
		ks = append(ks, k)
	}
	sort.Strings(ks)
	return ks
}

// Resolve rebuilds t with defined constants expanded and the literal-index
// simplifications re-applied, down to the given depth. It is used to read
// back values the generator itself stored (e.g. variadic argument arrays).
func (s *Script) Resolve(t *Term, depth int) *Term {
	budget := depth * 40
	return s.resolve(t, &budget)
}

// resolve expands defined constants lazily: a select peels the store chain of
// its array one definition at a time, a sat peels the supd chain of its
// sequence, so the cost is linear in the length of the chain.
func (s *Script) resolve(t *Term, budget *int) *Term {
	if *budget <= 0 {
		return t
	}
	*budget--
	if len(t.Args) == 0 {
		if d, ok := s.Defs[t.Op]; ok {
			return s.resolve(d, budget)
		}
		return t
	}
	switch t.Op {
	case "select":
		arr := t.Args[0]
		idx := s.resolve(t.Args[1], budget)
		for *budget > 0 {
			*budget--
			if len(arr.Args) == 0 {
				d, ok := s.Defs[arr.Op]
				if !ok {
					break
				}
				arr = d
				continue
			}
			if arr.Op != "store" {
				break
			}
			k := s.resolve(arr.Args[1], budget)
			if k.String() == idx.String() || sameRef(k, idx) {
				return s.resolve(arr.Args[2], budget)
			}
			if distinctRefs(k, idx) {
				arr = arr.Args[0]
				continue
			}
			break
		}
		return Select(arr, idx)
	case "sat":
		sq := s.resolve(t.Args[0], budget)
		i := s.resolve(t.Args[1], budget)
		for sq.Op == "supd" && *budget > 0 {
			*budget--
			j := s.resolve(sq.Args[1], budget)
			x, ok1 := i.IsIntLit()
			y, ok2 := j.IsIntLit()
			if !ok1 || !ok2 {
				break
			}
			if x == y {
				return s.resolve(sq.Args[2], budget)
			}
			sq = s.resolve(sq.Args[0], budget)
		}
		return SAt(sq, i)
	case "store", "supd", "ssub", "+", "-":
		args := make([]*Term, len(t.Args))
		for i, a := range t.Args {
			args[i] = s.resolve(a, budget)
		}
		switch t.Op {
		case "+":
			return Add(args[0], args[1])
		case "-":
			if len(args) == 2 {
				return Sub(args[0], args[1])
			}
		}
		return &Term{Op: t.Op, Args: args, Sort: t.Sort}
	}
	return t
}

// Name introduces a declared constant equal to t (usable in patterns, unlike a
// define-fun macro).
func (s *Script) Name(hint string, t *Term) *Term {
	if len(t.Args) == 0 {
		if _, isDef := s.Defs[t.Op]; !isDef {
			return t
		}
	}
	c := s.Fresh(hint, t.Sort)
	s.Assert(&Term{Op: "=", Args: []*Term{c, t}, Sort: Bool}, "")
	return c
}

// ---- string lists ---------------------------------------------------------------

var LNil = Const("lnil", SList)

func LLen(l *Term) *Term {
	if l == LNil {
		return IntLit(0)
	}
	return App("llen", Int, l)
}
func LAt(l, i *Term) *Term { return App("lat", Seq, l, i) }
func LApp(a, b *Term) *Term {
	if a == LNil {
		return b
	}
	if b == LNil {
		return a
	}
	return App("lapp", SList, a, b)
}
func LUnit(s *Term) *Term      { return App("lunit", SList, s) }
func LSub(l, a, b *Term) *Term { return App("lsub", SList, l, a, b) }
func LUpd(l, i, v *Term) *Term { return App("lupd", SList, l, i, v) }
func LEq(a, b *Term) *Term {
	if a == b {
		return True
	}
	return App("leq", Bool, a, b)
}

// SAtOff is element i of the slice window starting at off of backing array b
// (kept as one function so that patterns do not contain arithmetic).
func SAtOff(b, off, i *Term) *Term {
	if o, ok := off.IsIntLit(); ok && o == 0 {
		return SAt(b, i)
	}
	return App("satoff", Int, b, off, i)
}
