package vc

import (
	"golang.org/x/tools/go/ssa"
	"fmt"
	"go/token"
	"net/textproto"
	"strconv"
	"go/constant"
	"go/types"
	"strings"

	"govc/internal/smt"
	"govc/internal/spec"
)

// evalCtx evaluates specification expressions to terms.
type evalCtx struct {
	fc    *FnCtx
	vars  map[string]Val
	bound map[string]Val              // quantified / let variables
	local func(string) (Val, bool)    // source-level locals (loops, call sites)
	cur   *State
	old   *State
	atReturn   bool
	inTrigger  bool
	assumeMode bool
	qnames     map[string]bool // SMT names of the enclosing quantifiers' variables (a macro body may reuse a source name)
}

func (ec *evalCtx) fail(format string, args ...any) {
	ec.fc.refuse("specification error: "+format, args...)
}

// missingCallPanic aborts the evaluation of a clause that needs (a field of) the
// result of a call site that does not exist; the clause is then unprovable.
type missingCallPanic struct{ key string }

// booleanOrUnprovable evaluates a proof goal; a goal that depends on the result
// of a call that is not there becomes false (a failed obligation), not an error.
func (ec *evalCtx) booleanOrUnprovable(e spec.Expr) (t *smt.Term) {
	ec.fc.missingCall = ""
	defer func() {
		if r := recover(); r != nil {
			if _, ok := r.(missingCallPanic); ok {
				t = smt.False
				return
			}
			panic(r)
		}
	}()
	return ec.boolean(e)
}

func (ec *evalCtx) boolean(e spec.Expr) *smt.Term {
	v := ec.eval(e)
	if v.T == nil || v.T.Sort != smt.Bool {
		ec.fail("expected a boolean: %s", e)
	}
	return v.T
}

func (ec *evalCtx) with(name string, v Val) *evalCtx {
	n := *ec
	n.bound = map[string]Val{}
	for k, x := range ec.bound {
		n.bound[k] = x
	}
	n.bound[name] = v
	return &n
}

func (ec *evalCtx) inOld() *evalCtx {
	n := *ec
	n.cur = ec.old
	return &n
}

func (ec *evalCtx) lookupIdent(name string) (Val, bool) {
	if v, ok := ec.bound[name]; ok {
		return v, true
	}
	if ec.local != nil {
		// a loop-carried / local variable shadows the parameter of the same name;
		// name0 is the parameter's entry value
		if v, ok := ec.local(name); ok {
			return v, true
		}
	}
	if v, ok := ec.vars[name]; ok {
		return v, true
	}
	if len(name) > 1 && name[len(name)-1] == '0' {
		if v, ok := ec.vars[name[:len(name)-1]]; ok {
			return v, true
		}
	}
	// package-level constant or sentinel of the verified package
	if id, ok := ec.fc.P.Sentinel[name]; ok {
		return Val{T: ec.fc.sentinelTerm(name, id)}, true
	}
	if obj := ec.fc.Pkg.Scope().Lookup(name); obj != nil {
		return ec.objVal(obj, name)
	}
	return Val{}, false
}

func (ec *evalCtx) objVal(obj types.Object, name string) (Val, bool) {
	switch o := obj.(type) {
	case *types.Const:
		switch kindOf(o.Type()) {
		case KInt:
			return Val{T: smt.BigLit(o.Val().ExactString()), GoT: o.Type()}, true
		case KBool:
			return Val{T: smt.BoolLit(constant.BoolVal(o.Val())), GoT: o.Type()}, true
		case KStr:
			return Val{T: ec.fc.strLit(constant.StringVal(o.Val())), GoT: o.Type()}, true
		}
	case *types.Func:
		if fn, ok := ec.fc.P.Funcs[o.Name()]; ok {
			return Val{Clo: &Closure{Fn: fn}, GoT: o.Type()}, true
		}
	case *types.Var:
		// global variable: read its cell in the current state
		key := "g:" + name
		if id, ok := ec.fc.P.Sentinel[name]; ok {
			return ec.fc.fromTerm(ec.fc.sentinelTerm(name, id), o.Type()), true
		}
		if kindOf(o.Type()) == KStruct {
			return Val{}, false
		}
		t := ec.fc.readKey(ec.cur, key, smt.IntLit(0), sortOfKind(kindOf(o.Type())))
		return ec.fc.fromTerm(t, o.Type()), true
	}
	return Val{}, false
}

func (ec *evalCtx) qualified(pkg, name string) (Val, bool) {
	q := pkg + "." + name
	if id, ok := ec.fc.P.Sentinel[q]; ok {
		return Val{T: ec.fc.sentinelTerm(q, id)}, true
	}
	for _, imp := range ec.fc.Pkg.Imports() {
		if imp.Name() == pkg {
			if obj := imp.Scope().Lookup(name); obj != nil {
				return ec.objVal(obj, q)
			}
		}
	}
	// also the root package's imports (for plugin package contracts)
	return Val{}, false
}

func (ec *evalCtx) eval(e spec.Expr) Val {
	fc := ec.fc
	switch x := e.(type) {
	case *spec.IntLit:
		return Val{T: smt.BigLit(x.Val)}
	case *spec.BoolLit:
		return Val{T: smt.BoolLit(x.Val)}
	case *spec.NilLit:
		return Val{T: smt.IntLit(0)}
	case *spec.StrLit:
		return Val{T: fc.strLit(x.Val)}
	case *spec.Ident:
		v, ok := ec.lookupIdent(x.Name)
		if !ok {
			ec.fail("unknown identifier %s", x.Name)
		}
		return v
	case *spec.Sel:
		if id, ok := x.X.(*spec.Ident); ok {
			if _, isVar := ec.lookupIdent(id.Name); !isVar {
				if v, ok := ec.qualified(id.Name, x.Name); ok {
					return v
				}
				ec.fail("unknown qualified name %s.%s", id.Name, x.Name)
			}
		}
		base := ec.eval(x.X)
		return ec.field(base, x.Name, e)
	case *spec.Old:
		return ec.inOld().eval(x.X)
	case *spec.Len:
		v := ec.eval(x.X)
		return Val{T: ec.lenOf(v, e)}
	case *spec.Index:
		v := ec.eval(x.X)
		i := ec.eval(x.I)
		if v.T != nil {
			if _, _, isArr := smt.ArrParts(v.T.Sort); isArr {
				return Val{T: smt.Select(v.T, i.T)}
			}
		}
		if v.T != nil && v.T.Sort == smt.SList {
			return Val{T: smt.LAt(v.T, i.T)}
		}
		if v.T != nil && v.T.Sort == smt.Slice {
			// same term shape as the code's IndexAddr: backing[off+i]
			backing := fc.readKey(ec.cur, "elems", smt.SlArr(v.T), smt.Seq)
			r := Val{T: smt.SAtOff(backing, smt.SlOff(v.T), i.T)}
			if v.GoT != nil {
				if sl, ok := v.GoT.Underlying().(*types.Slice); ok {
					r.GoT = sl.Elem()
					if k := kindOf(sl.Elem()); k == KRef || k == KPtr {
						r = fc.fromTerm(r.T, sl.Elem())
					}
				}
			}
			return r
		}
		s := ec.seqOf(v, e)
		return Val{T: smt.SAt(s, i.T)}
	case *spec.SliceE:
		v := ec.eval(x.X)
		if v.T != nil && v.T.Sort == smt.SList {
			lo, hi := smt.IntLit(0), smt.LLen(v.T)
			if x.Lo != nil {
				lo = ec.eval(x.Lo).T
			}
			if x.Hi != nil {
				hi = ec.eval(x.Hi).T
			}
			return Val{T: smt.LSub(v.T, lo, hi)}
		}
		s := ec.seqOf(v, e)
		lo := smt.IntLit(0)
		hi := smt.SLen(s)
		if x.Lo != nil {
			lo = ec.eval(x.Lo).T
		}
		if x.Hi != nil {
			hi = ec.eval(x.Hi).T
		}
		return Val{T: smt.SSub(s, lo, hi)}
	case *spec.SeqLit:
		r := smt.SEmpty
		var lr *smt.Term
		for _, el := range x.Elems {
			ev := ec.eval(el).T
			if ev.Sort == smt.Seq {
				if lr == nil {
					lr = smt.LNil
				}
				lr = smt.LApp(lr, smt.LUnit(ev))
				continue
			}
			r = smt.SCat(r, smt.SUnit(ev))
		}
		if lr != nil {
			return Val{T: lr}
		}
		return Val{T: r}
	case *spec.Unary:
		v := ec.eval(x.X)
		if x.Op == "!" {
			return Val{T: smt.Not(v.T)}
		}
		return Val{T: smt.Neg(v.T)}
	case *spec.Cond:
		c := ec.boolean(x.C)
		a, b := ec.eval(x.A), ec.eval(x.B)
		at, bt := ec.scalar(a, e), ec.scalar(b, e)
		if at.Sort == smt.SList && bt == smt.SEmpty {
			bt = smt.LNil
		}
		if bt.Sort == smt.SList && at == smt.SEmpty {
			at = smt.LNil
		}
		return Val{T: smt.Ite(c, at, bt), GoT: a.GoT}
	case *spec.Let:
		v := ec.eval(x.Val)
		return ec.with(x.Name, v).eval(x.Body)
	case *spec.Quant:
		n := ec
		var vars []*smt.Term
		used := map[string]bool{}
		for k := range ec.qnames {
			used[k] = true
		}
		for _, p := range x.Vars {
			qn := p.Name + "!q"
			for k := 1; used[qn]; k++ {
				qn = fmt.Sprintf("%s!q%d", p.Name, k)
			}
			used[qn] = true
			bv := smt.Const(qn, specSort(p.Type))
			vars = append(vars, bv)
			if gt := fc.P.goTypeByName(p.Type); gt != nil {
				n = n.with(p.Name, fc.fromTerm(bv, gt))
			} else {
				n = n.with(p.Name, Val{T: bv})
			}
		}
		if n != ec {
			n.qnames = used
		}
		body := n.boolean(x.Body)
		var trigs [][]*smt.Term
		for _, tr := range x.Triggers {
			var ts []*smt.Term
			nt := *n
			nt.inTrigger = true
			for _, te := range tr {
				ts = append(ts, nt.eval(te).T)
			}
			trigs = append(trigs, ts)
		}
		if x.Kind == "forall" {
			return Val{T: smt.Forall(vars, body, trigs...)}
		}
		return Val{T: smt.Exists(vars, body)}
	case *spec.Binary:
		return ec.binary(x)
	case *spec.Call:
		return ec.callSpec(x)
	}
	ec.fail("unsupported expression %s", e)
	return Val{}
}

func (ec *evalCtx) scalar(v Val, e spec.Expr) *smt.Term {
	if v.T != nil {
		return v.T
	}
	if v.Loc != nil && (v.Loc.Kind == LStruct || v.Loc.Kind == LCell) {
		return v.Loc.Base
	}
	if v.Clo != nil {
		return ec.fc.closureRef(v.Clo)
	}
	ec.fail("expected a scalar value in %s", e)
	return nil
}

func (ec *evalCtx) lenOf(v Val, e spec.Expr) *smt.Term {
	t := ec.scalar(v, e)
	switch t.Sort {
	case smt.Seq:
		return smt.SLen(t)
	case smt.Slice:
		return smt.SlLen(t)
	case smt.SList:
		return smt.LLen(t)
	}
	ec.fail("|.| of a value of sort %s in %s", t.Sort, e)
	return nil
}

// seqOf views a value as a sequence (strings, arrays, slices via the heap).
func (ec *evalCtx) seqOf(v Val, e spec.Expr) *smt.Term {
	t := ec.scalar(v, e)
	switch t.Sort {
	case smt.Seq:
		return t
	case smt.Slice:
		return ec.fc.seqOfSlice(ec.cur, t)
	}
	if ec.fc.missingCall != "" {
		// the clause reads the result of a call that no longer exists on any path as a
		// sequence: nothing can be proved about it
		panic(missingCallPanic{ec.fc.missingCall})
	}
	ec.fail("expected a sequence in %s (sort %s)", e, t.Sort)
	return nil
}

func (ec *evalCtx) field(base Val, name string, e spec.Expr) Val {
	fc := ec.fc
	if base.Fs != nil && base.GoT != nil {
		if st, ok := base.GoT.Underlying().(*types.Struct); ok {
			for i := 0; i < st.NumFields(); i++ {
				if st.Field(i).Name() == name {
					return base.Fs[i]
				}
			}
		}
		ec.fail("no field %s in %s", name, e)
	}
	if base.GoT == nil {
		if ec.fc.missingCall != "" {
			// the clause reads a field of the result of a call that no longer exists on any path:
			// nothing can be proved about it
			panic(missingCallPanic{ec.fc.missingCall})
		}
		ec.fail("field access on a value without Go type: %s", e)
	}
	t := base.GoT
	if p, ok := t.Underlying().(*types.Pointer); ok {
		t = p.Elem()
	}
	st, ok := t.Underlying().(*types.Struct)
	if !ok {
		ec.fail("field access on non-struct %s in %s", t, e)
	}
	for i := 0; i < st.NumFields(); i++ {
		if st.Field(i).Name() != name {
			continue
		}
		key, ft := fc.fieldKey(t, i)
		ref := ec.scalar(base, e)
		if kindOf(ft) == KStruct {
			return fc.fromTerm(fc.subRef(key, ref), types.NewPointer(ft))
		}
		if kindOf(ft) == KArray {
			return Val{T: fc.readKey(ec.cur, "elems", fc.subRef(key, ref), smt.Seq), GoT: ft}
		}
		ft2 := fc.readKey(ec.cur, key, ref, sortOfKind(kindOf(ft)))
		if kindOf(ft) == KInt && !ec.inTrigger {
			fc.S.Assert(inRange(ft2, ft), "")
		}
		return fc.fromTerm(ft2, ft)
	}
	ec.fail("no field %s in %s", name, t)
	return Val{}
}

func (ec *evalCtx) binary(x *spec.Binary) Val {
	switch x.Op {
	case "&&":
		return Val{T: smt.And(ec.boolean(x.X), ec.boolean(x.Y))}
	case "||":
		return Val{T: smt.Or(ec.boolean(x.X), ec.boolean(x.Y))}
	case "==>":
		// short-circuit: a statically false antecedent leaves the consequent unevaluated
		// (it may mention locals that are not in scope at this call site)
		ant := ec.boolean(x.X)
		if ant == smt.False {
			return Val{T: smt.True}
		}
		return Val{T: smt.Implies(ant, ec.boolean(x.Y))}
	case "<==>":
		return Val{T: smt.Iff(ec.boolean(x.X), ec.boolean(x.Y))}
	}
	a, b := ec.eval(x.X), ec.eval(x.Y)
	at, bt := ec.scalar(a, x), ec.scalar(b, x)
	switch x.Op {
	case "==", "!=":
		// slices compare by content against sequences
		if at.Sort == smt.Slice && bt.Sort == smt.Seq {
			at = ec.fc.seqOfSlice(ec.cur, at)
		}
		if bt.Sort == smt.Slice && at.Sort == smt.Seq {
			bt = ec.fc.seqOfSlice(ec.cur, bt)
		}
		if at.Sort == smt.SList && bt == smt.SEmpty {
			bt = smt.LNil
		}
		if bt.Sort == smt.SList && at == smt.SEmpty {
			at = smt.LNil
		}
		if at.Sort != bt.Sort {
			ec.fail("comparison of different sorts %s / %s in %s", at.Sort, bt.Sort, x)
		}
		var eq *smt.Term
		if at.Sort == smt.Seq {
			eq = smt.SEq(at, bt)
		} else if at.Sort == smt.SList {
			eq = smt.LEq(at, bt)
		} else {
			eq = smt.Eq(at, bt)
		}
		if x.Op == "!=" {
			eq = smt.Not(eq)
		}
		return Val{T: eq}
	case "++":
		if at.Sort == smt.SList || bt.Sort == smt.SList {
			if at.Sort != smt.SList || bt.Sort != smt.SList {
				ec.fail("++ of a string list and a non-list in %s", x)
			}
			return Val{T: smt.LApp(at, bt)}
		}
		return Val{T: smt.SCat(ec.seqOf(a, x), ec.seqOf(b, x))}
	}
	if at.Sort != smt.Int || bt.Sort != smt.Int {
		ec.fail("arithmetic on non-integers in %s", x)
	}
	switch x.Op {
	case "<":
		return Val{T: smt.Lt(at, bt)}
	case "<=":
		return Val{T: smt.Le(at, bt)}
	case ">":
		return Val{T: smt.Gt(at, bt)}
	case ">=":
		return Val{T: smt.Ge(at, bt)}
	case "+":
		return Val{T: smt.Add(at, bt)}
	case "-":
		return Val{T: smt.Sub(at, bt)}
	case "*":
		return Val{T: smt.Mul(at, bt)}
	case "/":
		return Val{T: smt.App("gdiv", smt.Int, at, bt)}
	case "%":
		return Val{T: smt.App("gmod", smt.Int, at, bt)}
	}
	ec.fail("unknown operator %s", x.Op)
	return Val{}
}

func (ec *evalCtx) callSpec(x *spec.Call) Val {
	fc := ec.fc
	// ghost fields
	if g, ok := fc.P.Ghost[x.Fun]; ok {
		vs := specSort(g.Type)
		if g.Global {
			return Val{T: fc.readKey(ec.cur, "ghost:"+g.Name, smt.IntLit(0), vs)}
		}
		if g.Index != "" {
			if len(x.Args) != 2 {
				ec.fail("ghost field %s takes two arguments", x.Fun)
			}
			ref := ec.scalar(ec.eval(x.Args[0]), x)
			idx := ec.scalar(ec.eval(x.Args[1]), x)
			if idx.Sort == smt.Slice {
				idx = fc.seqOfSlice(ec.cur, idx)
			}
			return Val{T: smt.Select(fc.readKey(ec.cur, "ghost:"+g.Name, ref, smt.Arr(specSort(g.Index), vs)), idx)}
		}
		if len(x.Args) != 1 {
			ec.fail("ghost field %s takes one argument", x.Fun)
		}
		ref := ec.scalar(ec.eval(x.Args[0]), x)
		gt := fc.readKey(ec.cur, "ghost:"+g.Name, ref, vs)
		if g.Type == "seq" && !ec.inTrigger && len(ec.bound) == 0 {
			// ghost sequences hold bytes
			k := gt.String()
			if !fc.byteDone[k] {
				fc.byteDone[k] = true
				fc.byteFacts(gt)
			}
		}
		return Val{T: gt}
	}
	switch x.Fun {
	case "len":
		return Val{T: ec.lenOf(ec.eval(x.Args[0]), x)}
	case "cap":
		return Val{T: smt.SlCap(ec.scalar(ec.eval(x.Args[0]), x))}
	case "seq":
		return Val{T: ec.seqOf(ec.eval(x.Args[0]), x)}
	case "deref":
		v := ec.eval(x.Args[0])
		if v.Loc == nil && v.T != nil {
			if bi, ok := fc.boxes[v.T.String()]; ok && bi.v.Loc != nil {
				v = bi.v
			}
		}
		if v.Loc == nil || v.GoT == nil {
			ec.fail("deref of a non-pointer in %s (value %s, type %v)", x, v, v.GoT)
		}
		elem := v.GoT.Underlying().(*types.Pointer).Elem()
		return fc.loadLoc(ec.cur, v.Loc, elem, smt.True, "spec")
	case "derefref":
		// derefref(p): the reference stored in the cell an interface-boxed pointer p points to
		v := ec.eval(x.Args[0])
		if v.Loc == nil && v.T != nil {
			if bi, ok := fc.boxes[v.T.String()]; ok && bi.v.Loc != nil {
				v = bi.v
			}
		}
		if v.Loc == nil || v.Loc.Kind != LCell {
			return Val{T: fc.S.Fresh("derefref", smt.Int)}
		}
		return Val{T: fc.readKey(ec.cur, v.Loc.Key, v.Loc.Base, smt.Int)}
	case "fresh":
		if fv := ec.eval(x.Args[0]); fv.T != nil {
			if l, ok := fc.condFresh[fv.T.Op]; ok {
				return Val{T: smt.Eq(fv.T, l)}
			}
		}
		return Val{T: smt.Lt(ec.scalar(ec.eval(x.Args[0]), x), smt.IntLit(0))}
	case "band", "bor", "bxor":
		a, b := ec.eval(x.Args[0]).T, ec.eval(x.Args[1]).T
		return Val{T: smt.App(x.Fun, smt.Int, a, b)}
	case "bit":
		a, b := ec.eval(x.Args[0]).T, ec.eval(x.Args[1]).T
		return Val{T: smt.App("bit", smt.Bool, a, b)}
	case "typeis":
		// typeis(x, "T"): dynamic type of interface value x is T
		v := ec.eval(x.Args[0])
		name := x.Args[1].(*spec.StrLit).Val
		t := ec.scalar(v, x)
		if ec.inTrigger {
			return Val{T: smt.Eq(fc.dtype(t), fc.typeIDByName(name))}
		}
		// a nil interface value has no dynamic type
		return Val{T: smt.And(smt.Neq(t, smt.IntLit(0)), smt.Eq(fc.dtype(t), fc.typeIDByName(name)))}
	case "update":
		a, i, v := ec.eval(x.Args[0]), ec.eval(x.Args[1]), ec.eval(x.Args[2])
		return Val{T: smt.SUpd(ec.seqOf(a, x), i.T, v.T)}
	case "fmtw":
		return ec.fmtw(x)
	case "min":
		a, b := ec.eval(x.Args[0]).T, ec.eval(x.Args[1]).T
		return Val{T: smt.Ite(smt.Le(a, b), a, b)}
	case "max":
		a, b := ec.eval(x.Args[0]).T, ec.eval(x.Args[1]).T
		return Val{T: smt.Ite(smt.Ge(a, b), a, b)}
	case "sl_arr":
		return Val{T: smt.SlArr(ec.scalar(ec.eval(x.Args[0]), x))}
	case "mapdom", "mapval":
		return ec.mapAccess(x)
	case "panicked", "panicval":
		name := x.Args[0].(*spec.StrLit).Val
		k := x.Args[1].(*spec.IntLit).Val
		key := name + "#" + k
		if x.Fun == "panicked" {
			if t, ok := fc.callPanicked[key]; ok {
				return Val{T: smt.And(fc.callGuardOr(key), t)}
			}
			return Val{T: smt.False}
		}
		if t, ok := fc.callPanicVal[key]; ok {
			return Val{T: t}
		}
		return Val{T: smt.IntLit(0)}
	case "vnolit":
		// vnolit(v, "s"): no element of the ...any argument built at this call site
		// is a string literal containing s (decided statically; false when the
		// argument list is not built at the call site)
		boxes, ok := fc.varargs(ec.cur, ec.eval(x.Args[0]))
		if !ok {
			return Val{T: smt.False}
		}
		want := x.Args[1].(*spec.StrLit).Val
		for _, b := range boxes {
			if kindOf(b.ty) != KStr {
				continue
			}
			if lit, isLit := fc.literalOf(fc.S.Resolve(b.v.T, 12)); isLit && strings.Contains(lit, want) {
				return Val{T: smt.False}
			}
		}
		return Val{T: smt.True}
	case "nolit":
		// nolit(e, "s"): no string literal that the value of e is built from (by
		// concatenation, along any path) contains s - decided statically on the
		// term of e; pieces that are not literals are not constrained
		v := ec.eval(x.Args[0])
		want := x.Args[1].(*spec.StrLit).Val
		if v.T == nil {
			return Val{T: smt.False}
		}
		seen := map[*smt.Term]bool{}
		var walk func(t *smt.Term, depth int) bool
		walk = func(t *smt.Term, depth int) bool {
			if seen[t] || depth > 64 {
				return true
			}
			seen[t] = true
			if lit, isLit := fc.literalOf(t); isLit {
				return !strings.Contains(lit, want)
			}
			if len(t.Args) == 0 {
				if d, ok := fc.S.Defs[t.Op]; ok {
					return walk(d, depth+1)
				}
				return true
			}
			for _, a := range t.Args {
				if !walk(a, depth+1) {
					return false
				}
			}
			return true
		}
		if walk(v.T, 0) {
			return Val{T: smt.True}
		}
		return Val{T: smt.False}
	case "vlit", "vprefix", "vstr", "vcount":
		// the elements of a ...any argument built at this call site:
		// vlit(v, i, "text"): element i is the string "text" (decided statically for literals);
		// vprefix(v, i, "p"): element i is a string literal with prefix p (static only);
		// vstr(v, i): element i as a string; vcount(v): number of elements
		boxes, ok := fc.varargs(ec.cur, ec.eval(x.Args[0]))
		if x.Fun == "vcount" {
			if !ok {
				return Val{T: smt.IntLit(-1)}
			}
			return Val{T: smt.IntLit(int64(len(boxes)))}
		}
		i, _ := strconv.Atoi(x.Args[1].(*spec.IntLit).Val)
		var el *Val
		if ok && i < len(boxes) && kindOf(boxes[i].ty) == KStr {
			el = &boxes[i].v
		}
		switch x.Fun {
		case "vstr":
			if el == nil {
				return fc.freshVal("vstr", types.Typ[types.String])
			}
			return Val{T: el.T}
		case "vlit":
			want := x.Args[2].(*spec.StrLit).Val
			if el == nil {
				return Val{T: smt.False}
			}
			if lit, isLit := fc.literalOf(fc.S.Resolve(el.T, 12)); isLit {
				if lit == want {
					return Val{T: smt.True}
				}
				return Val{T: smt.False}
			}
			return Val{T: smt.Eq(el.T, fc.strLit(want))}
		default:
			want := x.Args[2].(*spec.StrLit).Val
			if el == nil {
				return Val{T: smt.False}
			}
			if lit, isLit := fc.literalOf(fc.S.Resolve(el.T, 12)); isLit && strings.HasPrefix(lit, want) {
				return Val{T: smt.True}
			}
			return Val{T: smt.False}
		}
	case "addr":
		// addr(x.f): the address of the struct-typed field f of x (an embedded object)
		sel, ok := x.Args[0].(*spec.Sel)
		if !ok {
			ec.fail("addr: expected x.f")
		}
		base := ec.eval(sel.X)
		if base.GoT == nil {
			ec.fail("addr: %s has no Go type", sel.X)
		}
		t := base.GoT
		if p, isP := t.Underlying().(*types.Pointer); isP {
			t = p.Elem()
		}
		st, isS := t.Underlying().(*types.Struct)
		if !isS {
			ec.fail("addr: %s is not a struct", sel.X)
		}
		for i := 0; i < st.NumFields(); i++ {
			if st.Field(i).Name() == sel.Name {
				key, ft := fc.fieldKey(t, i)
				if _, isStruct := ft.Underlying().(*types.Struct); !isStruct {
					ec.fail("addr: %s is not a struct-typed field", sel)
				}
				return Val{T: fc.subRef(key, ec.scalar(base, x)), GoT: types.NewPointer(ft)}
			}
		}
		ec.fail("addr: no field %s", sel.Name)
	case "boxed":
		// boxed(x): the pointer held by the interface value x when x was built, at this
		// call site, from a pointer of a view type (type B A); otherwise x itself
		v := ec.eval(x.Args[0])
		if v.T != nil {
			if bi, ok := fc.boxes[v.T.String()]; ok && bi.v.T != nil && (bi.v.Conv || fc.viewPointer(bi.ty)) {
				return bi.v
			}
		}
		return v
	case "before":
		// before(e): e in the state just before the loop under contract was entered
		li := fc.specLoop
		if li == nil || li.preState == nil {
			ec.fail("before: only meaningful in the contract of a loop")
		}
		n := *ec
		n.cur = li.preState
		return n.eval(x.Args[0])
	case "iterated":
		// iterated(k): key k has been produced by the map iteration of the loop under contract
		li := fc.specLoop
		if li == nil {
			ec.fail("iterated: only meaningful in the contract of a loop that ranges over a map")
		}
		var it *iterInfo
		for _, in := range li.header.Instrs {
			if nx, ok := in.(*ssa.Next); ok {
				if r, ok := nx.Iter.(*ssa.Range); ok {
					it = fc.iters[r]
				}
			}
		}
		if it == nil {
			ec.fail("iterated: the loop does not range over a modelled map")
		}
		_, _, ks, _, _ := fc.mapKeys(it.mt)
		k := ec.scalar(ec.eval(x.Args[0]), x)
		return Val{T: smt.Select(fc.readKey(ec.cur, it.visKey, it.ref, smt.Arr(ks, smt.Bool)), k)}
	case "ranged":
		// ranged(): the map the loop under contract ranges over (it may have no name in the source)
		li := fc.specLoop
		if li == nil {
			ec.fail("ranged: only meaningful in the contract of a loop that ranges over a map")
		}
		for _, in := range li.header.Instrs {
			if nx, ok := in.(*ssa.Next); ok {
				if r, ok := nx.Iter.(*ssa.Range); ok {
					if it := fc.iters[r]; it != nil {
						return Val{T: it.m, GoT: r.X.Type()}
					}
				}
			}
		}
		ec.fail("ranged: the loop does not range over a modelled map")
	case "islit":
		// islit(x, "text"): decided statically when x is a string literal, else the equality
		v := ec.scalar(ec.eval(x.Args[0]), x)
		want := x.Args[1].(*spec.StrLit).Val
		if lit, isLit := fc.literalOf(fc.S.Resolve(v, 12)); isLit {
			if lit == want {
				return Val{T: smt.True}
			}
			return Val{T: smt.False}
		}
		return Val{T: smt.Eq(v, fc.strLit(want))}
	case "callres", "called", "callresb":
		// callres("callee", k [, i]): (component i of) the result of the k-th call to callee on this path
		name := x.Args[0].(*spec.StrLit).Val
		k := x.Args[1].(*spec.IntLit).Val
		key := name + "#" + k
		if x.Fun == "called" {
			g, ok := fc.callGuard[key]
			if !ok {
				return Val{T: smt.False}
			}
			return Val{T: g}
		}
		v, ok := fc.callRes[key]
		if !ok && x.Fun != "callresb" {
			// no such call on any path: if the callee is a function of the module its result
			// type is known, and the clause reads an unconstrained value of that type (vacuous
			// under a called(...) guard, unprovable otherwise)
			if callee := fc.P.Funcs[name]; callee != nil {
				rs := callee.Signature.Results()
				if len(x.Args) == 3 {
					i, _ := strconv.Atoi(x.Args[2].(*spec.IntLit).Val)
					if i < rs.Len() {
						return fc.freshVal("nocall", rs.At(i).Type())
					}
				} else if rs.Len() == 1 {
					return fc.freshVal("nocall", rs.At(0).Type())
				}
			}
		}
		if !ok {
			fc.missingCall = key
			// no such call on any path to this point: the value is irrelevant (guard with called(...))
			if x.Fun == "callresb" {
				return Val{T: smt.False}
			}
			return Val{T: smt.IntLit(0)}
		}
		if len(x.Args) == 3 {
			i, _ := strconv.Atoi(x.Args[2].(*spec.IntLit).Val)
			if v.Fs == nil || i >= len(v.Fs) {
				ec.fail("callres: %s has no component %d", key, i)
			}
			return v.Fs[i]
		}
		return v
	case "cast":
		// cast(x, "Go type"): view a reference as a value of the given Go type (e.g. a map)
		v := ec.eval(x.Args[0])
		tstr := x.Args[1].(*spec.StrLit).Val
		var ty types.Type
		if tv, err := types.Eval(fc.P.Prog.Fset, fc.Pkg, token.NoPos, tstr); err == nil {
			ty = tv.Type
		} else if ty = fc.P.goTypeByName(tstr); ty == nil {
			ec.fail("cast: %v", err)
		}
		return fc.fromTerm(ec.scalar(v, x), ty)
	case "implements":
		// implements(x, "Iface"): x is non-nil and its dynamic type implements the named interface
		v := ec.scalar(ec.eval(x.Args[0]), x)
		it := fc.P.goTypeByName(x.Args[1].(*spec.StrLit).Val)
		if it == nil {
			ec.fail("implements: unknown interface %s", x.Args[1])
		}
		return Val{T: smt.And(smt.Neq(v, smt.IntLit(0)), smt.App(fc.implementsFn(it), smt.Bool, fc.dtype(v)))}
	case "freshmap":
		// the global map was created empty by make() in its package-level initialiser (checked in the source)
		id, ok := x.Args[0].(*spec.Ident)
		if !ok || !fc.P.initIsEmptyMake(id.Name) {
			ec.fail("freshmap(%s): the variable is not initialised by a plain make(map...)", x.Args[0])
		}
		m := ec.eval(x.Args[0])
		mt := m.GoT.Underlying().(*types.Map)
		dom, _, ks, _, _ := fc.mapKeys(mt)
		ref := ec.scalar(m, x)
		k := smt.Const("k!fm", ks)
		d := fc.readKey(ec.cur, dom, ref, smt.Arr(ks, smt.Bool))
		fc.Used["package-level initialiser of "+id.Name+" is make(map...) (read from the source)"] = true
		return Val{T: smt.And(smt.Neq(ref, smt.IntLit(0)), smt.Forall([]*smt.Term{k}, smt.Not(smt.Select(d, k)), []*smt.Term{smt.Select(d, k)}))}
	case "Is":
		e, t := ec.scalar(ec.eval(x.Args[0]), x), ec.scalar(ec.eval(x.Args[1]), x)
		fc.checkTaint(e)
		return Val{T: fc.isErr(e, t)}
	case "asErr":
		e := ec.scalar(ec.eval(x.Args[0]), x)
		fc.checkTaint(e)
		return fc.fromTerm(fc.asErr(e), fc.errorPtrType())
	case "coded":
		e := ec.scalar(ec.eval(x.Args[0]), x)
		fc.checkTaint(e)
		return Val{T: smt.Neq(fc.asErr(e), smt.IntLit(0))}
	case "codeOf":
		e := ec.scalar(ec.eval(x.Args[0]), x)
		fc.checkTaint(e)
		return Val{T: fc.readKey(ec.cur, "Error.code", fc.asErr(e), smt.Int)}
	case "dtypeIs":
		v := ec.eval(x.Args[0])
		name := x.Args[1].(*spec.StrLit).Val
		t := ec.scalar(v, x)
		if ec.inTrigger {
			return Val{T: smt.Eq(fc.dtype(t), fc.typeIDByName(name))}
		}
		// a nil interface value has no dynamic type
		return Val{T: smt.And(smt.Neq(t, smt.IntLit(0)), smt.Eq(fc.dtype(t), fc.typeIDByName(name)))}
	}
	if sf, ok := fc.P.SpecFn[x.Fun]; ok && sf.Macro {
		if len(sf.Params) != len(x.Args) {
			ec.fail("%s expects %d arguments", x.Fun, len(sf.Params))
		}
		n := ec
		for i, a := range x.Args {
			av := ec.eval(a)
			if gt := fc.P.goTypeByName(sf.Params[i].Type); gt != nil {
				if av.T == nil {
					av = Val{T: ec.scalar(av, x)}
				}
				av = fc.fromTerm(av.T, gt)
			}
			n = n.with(sf.Params[i].Name, av)
		}
		return n.eval(sf.Body)
	}
	if sf, ok := fc.P.SpecFn[x.Fun]; ok {
		fc.declareSpecFn(sf)
		if len(sf.Params) != len(x.Args) {
			ec.fail("%s expects %d arguments", x.Fun, len(sf.Params))
		}
		args := make([]*smt.Term, len(x.Args))
		for i, a := range x.Args {
			av := ec.eval(a)
			want := specSort(sf.Params[i].Type)
			t := ec.scalar(av, x)
			if want == smt.Seq && t.Sort == smt.Slice {
				t = fc.seqOfSlice(ec.cur, t)
			}
			if t.Sort != want {
				ec.fail("argument %d of %s has sort %s, want %s", i+1, x.Fun, t.Sort, want)
			}
			args[i] = t
		}
		if sf.Name == "canon" {
			if lit, ok := fc.literalOf(args[0]); ok && !fc.canonDone[lit] {
				fc.canonDone[lit] = true
				fc.S.Assert(smt.SEq(smt.App("sf!canon", smt.Seq, args[0]), fc.strLit(textproto.CanonicalMIMEHeaderKey(lit))), "textproto.CanonicalMIMEHeaderKey(\""+lit+"\") computed")
			}
		}
		return Val{T: smt.App("sf!"+sf.Name, specSort(sf.Ret), args...)}
	}
	ec.fail("unknown function %s", x.Fun)
	return Val{}
}

// mapAccess: mapdom(m, k) / mapval(m, k) for map-typed m.
func (ec *evalCtx) mapAccess(x *spec.Call) Val {
	fc := ec.fc
	m := ec.eval(x.Args[0])
	if m.GoT == nil {
		ec.fail("%s: map expression without Go type", x)
	}
	mt, ok := m.GoT.Underlying().(*types.Map)
	if !ok {
		ec.fail("%s: not a map", x)
	}
	dom, val, ks, vs, ok := fc.mapKeys(mt)
	if !ok {
		ec.fail("%s: unsupported map type", x)
	}
	k := ec.scalar(ec.eval(x.Args[1]), x)
	ref := ec.scalar(m, x)
	if x.Fun == "mapdom" && ec.inTrigger {
		return Val{T: smt.Select(fc.readKey(ec.cur, dom, ref, smt.Arr(ks, smt.Bool)), k)}
	}
	if x.Fun == "mapdom" {
		return Val{T: smt.And(smt.Neq(ref, smt.IntLit(0)), smt.Select(fc.readKey(ec.cur, dom, ref, smt.Arr(ks, smt.Bool)), k))}
	}
	return fc.fromTerm(smt.Select(fc.readKey(ec.cur, val, ref, smt.Arr(ks, vs)), k), mt.Elem())
}

// fmtw(format, args): the argument wrapped by %w in a constant format string
// (nil if none). With a symbolic format it is an uninterpreted function.
func (ec *evalCtx) fmtw(x *spec.Call) Val {
	fc := ec.fc
	f := ec.eval(x.Args[0])
	a := ec.seqOf(ec.eval(x.Args[1]), x)
	for lit, t := range fc.strLits {
		if t == f.T {
			idx := wVerbIndex(lit)
			if idx < 0 {
				return Val{T: smt.IntLit(0)}
			}
			return Val{T: smt.SAt(a, smt.IntLit(int64(idx)))}
		}
	}
	if f.T == smt.SEmpty {
		return Val{T: smt.IntLit(0)}
	}
	fc.S.DeclareFun("fmtw", []smt.Sort{smt.Seq, smt.Seq}, smt.Int)
	return Val{T: smt.App("fmtw", smt.Int, f.T, a)}
}

// wVerbIndex returns the operand index consumed by the first %w verb.
func wVerbIndex(format string) int {
	arg := 0
	for i := 0; i < len(format); i++ {
		if format[i] != '%' {
			continue
		}
		i++
		if i >= len(format) {
			break
		}
		if format[i] == '%' {
			continue
		}
		// flags, width, precision
		for i < len(format) && strings.ContainsRune("+-# 0123456789.", rune(format[i])) {
			i++
		}
		if i >= len(format) {
			break
		}
		if format[i] == 'w' {
			return arg
		}
		arg++
	}
	return -1
}

// declareSpecFn emits the declaration / definition and axioms of a spec function once.
func (fc *FnCtx) declareSpecFn(sf *spec.SpecFn) {
	if fc.specDecl[sf.Name] {
		return
	}
	fc.specDecl[sf.Name] = true
	var as []smt.Sort
	for _, p := range sf.Params {
		as = append(as, specSort(p.Type))
	}
	name := "sf!" + sf.Name
	fc.S.DeclareFun(name, as, specSort(sf.Ret))
	if sf.Body != nil {
		// definitional axiom, triggered on the application
		ec := &evalCtx{fc: fc, vars: map[string]Val{}, cur: fc.entry, old: fc.entry}
		var vars []*smt.Term
		n := ec
		for _, p := range sf.Params {
			bv := smt.Const(p.Name+"!d", specSort(p.Type))
			vars = append(vars, bv)
			n = n.with(p.Name, Val{T: bv})
		}
		app := smt.App(name, specSort(sf.Ret), vars...)
		body := n.eval(sf.Body)
		var def *smt.Term
		if app.Sort == smt.Seq {
			def = smt.Eq(app, body.T)
		} else {
			def = smt.Eq(app, body.T)
		}
		if len(vars) == 0 {
			fc.S.Assert(def, "definition of "+sf.Name)
		} else {
			fc.S.Assert(smt.Forall(vars, def, []*smt.Term{app}), "definition of "+sf.Name)
		}
	}
	// axioms mentioning this function
	for _, ax := range fc.P.Spec.Axioms {
		if fc.axiomDone[ax.Name] || !mentions(ax.E, sf.Name) {
			continue
		}
		fc.axiomDone[ax.Name] = true
		ec := &evalCtx{fc: fc, vars: map[string]Val{}, cur: fc.entry, old: fc.entry}
		fc.S.Assert(ec.boolean(ax.E), "axiom "+ax.Name)
		fc.Used["axiom "+ax.Name+" ("+shortFile(ax.File)+")"] = true
	}
}

func mentions(e spec.Expr, fn string) bool {
	found := false
	walk(e, func(x spec.Expr) {
		if c, ok := x.(*spec.Call); ok && c.Fun == fn {
			found = true
		}
	})
	return found
}

func walk(e spec.Expr, f func(spec.Expr)) {
	if e == nil {
		return
	}
	f(e)
	switch x := e.(type) {
	case *spec.Sel:
		walk(x.X, f)
	case *spec.Call:
		for _, a := range x.Args {
			walk(a, f)
		}
	case *spec.Index:
		walk(x.X, f)
		walk(x.I, f)
	case *spec.SliceE:
		walk(x.X, f)
		walk(x.Lo, f)
		walk(x.Hi, f)
	case *spec.Len:
		walk(x.X, f)
	case *spec.Unary:
		walk(x.X, f)
	case *spec.Binary:
		walk(x.X, f)
		walk(x.Y, f)
	case *spec.Old:
		walk(x.X, f)
	case *spec.Quant:
		for _, tr := range x.Triggers {
			for _, t := range tr {
				walk(t, f)
			}
		}
		walk(x.Body, f)
	case *spec.Cond:
		walk(x.C, f)
		walk(x.A, f)
		walk(x.B, f)
	case *spec.Let:
		walk(x.Val, f)
		walk(x.Body, f)
	case *spec.SeqLit:
		for _, a := range x.Elems {
			walk(a, f)
		}
	}
}

// location resolves an assigns expression to (heap key, reference, value sort).
// ref == nil means the whole key; key "*" means everything.
func (ec *evalCtx) location(e spec.Expr) (key string, ref *smt.Term, vs smt.Sort) {
	fc := ec.fc
	switch x := e.(type) {
	case *spec.Ident:
		if x.Name == "everything" {
			return "*", nil, ""
		}
	case *spec.Call:
		if g, ok := fc.P.Ghost[x.Fun]; ok {
			vs = specSort(g.Type)
			if g.Global {
				return "ghost:" + g.Name, smt.IntLit(0), vs
			}
			if id, ok := x.Args[0].(*spec.Ident); ok && id.Name == "all" {
				if g.Index != "" {
					vs = smt.Arr(specSort(g.Index), vs)
				}
				return "ghost:" + g.Name, nil, vs
			}
			if g.Index != "" {
				// the whole per-object map is assigned
				return "ghost:" + g.Name, ec.scalar(ec.eval(x.Args[0]), e), smt.Arr(specSort(g.Index), vs)
			}
			return "ghost:" + g.Name, ec.scalar(ec.eval(x.Args[0]), e), vs
		}
		switch x.Fun {
		case "elems":
			v := ec.eval(x.Args[0])
			t := ec.scalar(v, e)
			if t.Sort == smt.Slice {
				ec.fc.lastElemsSlice = t
				return "elems", smt.SlArr(t), smt.Seq
			}
			return "elems", t, smt.Seq
		case "deref":
			v := ec.eval(x.Args[0])
			if v.Loc == nil && v.T != nil {
				if bi, ok := fc.boxes[v.T.String()]; ok && bi.v.Loc != nil {
					v = bi.v
				}
			}
			if v.Loc == nil {
				ec.fail("deref of non-pointer in assigns: %s", e)
			}
			elem := v.GoT.Underlying().(*types.Pointer).Elem()
			switch v.Loc.Kind {
			case LCell:
				return v.Loc.Key, v.Loc.Base, sortOfKind(kindOf(elem))
			case LField:
				return v.Loc.Key, v.Loc.Base, sortOfKind(kindOf(elem))
			}
		case "fields":
			// handled by the caller (expands to every field of the pointed-to struct)
			ec.fail("fields(x) is only allowed directly in an assigns clause")
		case "mapof":
			v := ec.eval(x.Args[0])
			mt := v.GoT.Underlying().(*types.Map)
			dom, _, ks, _, _ := fc.mapKeys(mt)
			return dom, ec.scalar(v, e), smt.Arr(ks, smt.Bool)
		case "mapvals":
			v := ec.eval(x.Args[0])
			mt := v.GoT.Underlying().(*types.Map)
			_, val, ks, vs2, _ := fc.mapKeys(mt)
			return val, ec.scalar(v, e), smt.Arr(ks, vs2)
		}
	case *spec.Sel:
		base := ec.eval(x.X)
		if base.GoT == nil {
			ec.fail("assigns: %s has no Go type", x.X)
		}
		t := base.GoT
		if p, ok := t.Underlying().(*types.Pointer); ok {
			t = p.Elem()
		}
		st, ok := t.Underlying().(*types.Struct)
		if !ok {
			ec.fail("assigns: %s is not a struct", x.X)
		}
		for i := 0; i < st.NumFields(); i++ {
			if st.Field(i).Name() == x.Name {
				k, ft := fc.fieldKey(t, i)
				return k, ec.scalar(base, e), sortOfKind(kindOf(ft))
			}
		}
	}
	ec.fail("unsupported assigns location %s", e)
	return "", nil, ""
}

var _ = fmt.Sprintf

// fieldLocations expands assigns fields(x) into one location per field of the struct x points to.
func (ec *evalCtx) fieldLocations(e spec.Expr) (keys []string, ref *smt.Term, sorts []smt.Sort, ok bool) {
	c, isCall := e.(*spec.Call)
	if isCall && c.Fun == "prototarget" && len(c.Args) == 1 {
		// prototarget(x): like target(x) for a decoder of protobuf messages: it writes only to
		// objects that are proto.Message values, and no struct type of the verified root
		// package implements proto.Message (checked when the program is loaded), so the
		// library's own structs are not among its targets
		ref := ec.scalar(ec.eval(c.Args[0]), e)
		if bi, ok := ec.fc.boxes[ref.String()]; ok && (bi.v.Conv || ec.fc.viewPointer(bi.ty)) && bi.v.T != nil {
			ref = bi.v.T
		}
		for _, k := range smt.SortedKeys(ec.fc.heapSorts) {
			if strings.HasPrefix(k, "ghost:") || strings.HasPrefix(k, "map:") || strings.HasPrefix(k, "iter:") || k == "elems" || k == "elemsS" {
				continue
			}
			tname := k
			if strings.HasPrefix(k, "cell:") {
				tname = k[len("cell:"):]
			} else if i := strings.LastIndex(k, "."); i >= 0 {
				tname = k[:i]
			}
			if ec.fc.P.rootNonProtoType(tname) {
				continue
			}
			_, vs, isArr := smt.ArrParts(ec.fc.heapSorts[k])
			if !isArr {
				continue
			}
			keys = append(keys, k)
			sorts = append(sorts, vs)
		}
		ec.fc.Used["protobuf decoders write only to proto.Message values; no struct type of the library implements proto.Message (checked at load)"] = true
		return keys, ref, sorts, true
	}
	if isCall && c.Fun == "target" && len(c.Args) == 1 {
		// target(x): every field of the object x refers to, whatever its dynamic type
		// (the target of a decoder: json.Unmarshal(data, x))
		ref := ec.scalar(ec.eval(c.Args[0]), e)
		if bi, ok := ec.fc.boxes[ref.String()]; ok && (bi.v.Conv || ec.fc.viewPointer(bi.ty)) && bi.v.T != nil {
			// a pointer converted to another named type before boxing: the object is the pointer's
			ref = bi.v.T
		}
		for _, k := range smt.SortedKeys(ec.fc.heapSorts) {
			if strings.HasPrefix(k, "ghost:") || strings.HasPrefix(k, "map:") || strings.HasPrefix(k, "iter:") || k == "elems" || k == "elemsS" {
				continue
			}
			_, vs, isArr := smt.ArrParts(ec.fc.heapSorts[k])
			if !isArr {
				continue
			}
			keys = append(keys, k)
			sorts = append(sorts, vs)
		}
		return keys, ref, sorts, true
	}
	if !isCall || c.Fun != "fields" || len(c.Args) != 1 {
		return nil, nil, nil, false
	}
	base := ec.eval(c.Args[0])
	if base.GoT == nil {
		ec.fail("fields(%s): no Go type", c.Args[0])
	}
	t := base.GoT
	if p, isP := t.Underlying().(*types.Pointer); isP {
		t = p.Elem()
	}
	st, isS := t.Underlying().(*types.Struct)
	if !isS {
		ec.fail("fields(%s): not a struct", c.Args[0])
	}
	for i := 0; i < st.NumFields(); i++ {
		k, ft := ec.fc.fieldKey(t, i)
		if kindOf(ft) == KStruct || kindOf(ft) == KArray || kindOf(ft) == KStrArr {
			continue
		}
		keys = append(keys, k)
		sorts = append(sorts, sortOfKind(kindOf(ft)))
	}
	return keys, ec.scalar(base, e), sorts, true
}

func (fc *FnCtx) callGuardOr(key string) *smt.Term {
	if g, ok := fc.callGuard[key]; ok {
		return g
	}
	return smt.True
}
