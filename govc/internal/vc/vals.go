package vc

import (
	"fmt"
	"go/types"
	"strings"

	"golang.org/x/tools/go/ssa"

	"govc/internal/smt"
)

// Kind classifies Go types by their representation in the VC.
type Kind int

const (
	KInt    Kind = iota // integers (mathematical, with range facts)
	KBool
	KStr    // string: Seq
	KSlice  // slice: Slice datatype over heap "elems"
	KRef    // pointer to struct, interface, map, chan, func: Int reference (0 = nil)
	KPtr    // pointer to a non-struct cell
	KStruct // struct value: tuple of fields
	KTuple
	KArray // array value: Seq
	KOther // unsupported (float, complex): opaque Int
	KStrList // []string by value: SList
	KStrArr  // [N]string: SList
)

func kindOf(t types.Type) Kind {
	switch u := t.Underlying().(type) {
	case *types.Basic:
		switch {
		case u.Info()&types.IsBoolean != 0:
			return KBool
		case u.Info()&types.IsInteger != 0:
			return KInt
		case u.Info()&types.IsString != 0:
			return KStr
		case u.Kind() == types.UnsafePointer:
			return KRef
		case u.Kind() == types.UntypedNil:
			return KRef
		}
		return KOther
	case *types.Pointer:
		if _, ok := u.Elem().Underlying().(*types.Struct); ok {
			return KRef
		}
		return KPtr
	case *types.Slice:
		if b, ok := u.Elem().Underlying().(*types.Basic); ok && b.Info()&types.IsString != 0 {
			return KStrList
		}
		return KSlice
	case *types.Struct:
		return KStruct
	case *types.Tuple:
		return KTuple
	case *types.Array:
		if b, ok := u.Elem().Underlying().(*types.Basic); ok && b.Info()&types.IsString != 0 {
			return KStrArr
		}
		return KArray
	case *types.Interface, *types.Map, *types.Chan, *types.Signature:
		return KRef
	case *types.TypeParam:
		return KRef
	}
	return KOther
}

func sortOfKind(k Kind) smt.Sort {
	switch k {
	case KBool:
		return smt.Bool
	case KStr, KArray:
		return smt.Seq
	case KSlice:
		return smt.Slice
	case KStrList, KStrArr:
		return smt.SList
	}
	return smt.Int
}

// LocKind describes what a pointer value points at.
type LocKind int

const (
	LStruct LocKind = iota // Base is the struct reference
	LCell                  // Base is a cell reference; Key is the heap key
	LField                 // non-struct field Key of struct Base
	LElem                  // element Idx of backing array Base (heap "elems")
	LGlobal                // global variable cell Key
	LStrElem               // element Idx of the [N]string cell Base (heap "elemsS")
	LListElem              // element Idx of the string list value Base (read-only)
)

type Loc struct {
	Kind LocKind
	Base *smt.Term
	Key  string
	Idx  *smt.Term
	Off  *smt.Term // slice offset for LElem (nil = 0)
	Elem types.Type
}

// Closure is a function value whose target is known.
type Closure struct {
	Fn       *ssa.Function
	Bindings []Val
}

// Val is the symbolic value of an SSA value or spec expression.
type Val struct {
	T   *smt.Term
	Fs  []Val
	Loc *Loc
	Clo *Closure
	GoT types.Type
	Conv bool // pointer converted between distinct named types (type B A): boxing it must not claim the object's own dynamic type
}

func (v Val) String() string {
	switch {
	case v.T != nil:
		return v.T.String()
	case v.Loc != nil:
		return fmt.Sprintf("loc(%d,%v,%s)", v.Loc.Kind, v.Loc.Base, v.Loc.Key)
	case v.Fs != nil:
		ss := make([]string, len(v.Fs))
		for i, f := range v.Fs {
			ss[i] = f.String()
		}
		return "{" + strings.Join(ss, ", ") + "}"
	}
	return "<novalue>"
}

// State is the heap at a program point: a map from heap key to array term.
type State struct {
	H map[string]*smt.Term
}

func (s *State) clone() *State {
	n := &State{H: make(map[string]*smt.Term, len(s.H))}
	for k, v := range s.H {
		n.H[k] = v
	}
	return n
}

// intRange returns the inclusive range of an integer type as decimal strings.
func intRange(t types.Type) (lo, hi string, ok bool) {
	b, isB := t.Underlying().(*types.Basic)
	if !isB || b.Info()&types.IsInteger == 0 {
		return "", "", false
	}
	switch b.Kind() {
	case types.Int8:
		return "-128", "127", true
	case types.Int16:
		return "-32768", "32767", true
	case types.Int32:
		return "-2147483648", "2147483647", true
	case types.Int, types.Int64, types.UntypedInt:
		return "-9223372036854775808", "9223372036854775807", true
	case types.Uint8:
		return "0", "255", true
	case types.Uint16:
		return "0", "65535", true
	case types.Uint32:
		return "0", "4294967295", true
	case types.Uint, types.Uint64, types.Uintptr:
		return "0", "18446744073709551615", true
	case types.UntypedRune:
		return "-2147483648", "2147483647", true
	}
	return "", "", false
}

func inRange(t *smt.Term, ty types.Type) *smt.Term {
	lo, hi, ok := intRange(ty)
	if !ok {
		return smt.True
	}
	return smt.And(smt.Le(smt.BigLit(lo), t), smt.Le(t, smt.BigLit(hi)))
}

func pow2(n int) string {
	// decimal string of 2^n for n in {8,16,32,64}
	switch n {
	case 8:
		return "256"
	case 16:
		return "65536"
	case 32:
		return "4294967296"
	case 64:
		return "18446744073709551616"
	}
	panic("pow2")
}

func bitSize(t types.Type) (bits int, signed bool) {
	b := t.Underlying().(*types.Basic)
	switch b.Kind() {
	case types.Int8:
		return 8, true
	case types.Int16:
		return 16, true
	case types.Int32, types.UntypedRune:
		return 32, true
	case types.Int, types.Int64, types.UntypedInt:
		return 64, true
	case types.Uint8:
		return 8, false
	case types.Uint16:
		return 16, false
	case types.Uint32:
		return 32, false
	}
	return 64, false
}
