package vc

import (
	"govc/internal/spec"
	"fmt"
	"os"
	"sort"
	"strings"
	"sync"
	"time"

	"govc/internal/smt"
)

type Options struct {
	TimeoutS  int
	Solvers   []smt.Solver
	All       bool // run every solver on every obligation and compare
	WorkDir   string
	Parallel  int
	KeepFiles bool
	VacuityTimeoutS int
	NoRetry   bool // do not retry obligations that timed out (thorough tier: the budget is long already)
}

type OblResult struct {
	Oblig
	Status  string // proved | failed | vacuous | ok (vacuity canary not provable)
	Raw     string // solver status
	Solver  string
	Seconds float64
	Output  string
	Values  map[string]string
	PerSolver map[string]string
	QuerySize int
	Replayed bool
	ReplayOutput string
}

type FnReport struct {
	Name    string
	Err     string
	BindErr string // part of the contract binds to nothing in the current tree (undecided unless an obligation fails)
	Results []OblResult
	Abstr   map[string]int
	Used    []string
	Notes   []string
	GenSeconds float64
	UnusedClauses []string
}

var sem chan struct{}
var semOnce sync.Once

// VerifyFunction generates and discharges all obligations of one function.
func VerifyFunction(p *Program, name string, opt Options) FnReport {
	rep := FnReport{Name: name}
	cs := p.Contract[name]
	fn := p.Funcs[name]
	if cs == nil {
		rep.Err = "no contract"
		return rep
	}
	if cs.AnchorErr != "" {
		rep.Err = "bind: " + cs.AnchorErr
		return rep
	}
	if fn == nil {
		rep.Err = "bind: contract does not bind to any function in the current tree"
		return rep
	}
	if cs.Trusted {
		// checksafety: the ensures clauses stay trusted (they state something the code cannot
		// show, e.g. a property of net/http), but the body must not panic
		c2 := *cs
		c2.Trusted = false
		c2.Ensures = nil
		c2.Defines = nil
		c2.HasAssigns = true
		c2.Assigns = []spec.Expr{&spec.Ident{Name: "everything"}}
		cs = &c2
	}
	start := time.Now()
	fc := NewFnCtx(p, name, fn, cs)
	if err := fc.Generate(); err != nil {
		rep.Err = err.Error()
		return rep
	}
	rep.GenSeconds = time.Since(start).Seconds()
	rep.Abstr = fc.Abstr
	for u := range fc.Used {
		rep.Used = append(rep.Used, u)
	}
	sort.Strings(rep.Used)
	rep.Notes = fc.Notes
	// binding checks: every loop spec and call assertion must have been used
	// a loop contract whose loop is gone is not an error by itself: the
	// function's remaining obligations decide (they are proved without it)
	for n := range cs.Loops {
		if n < 1 || n > len(fc.loopList) {
			rep.Notes = append(rep.Notes, fmt.Sprintf("contract names loop %d but the function has %d loops: loop contract ignored", n, len(fc.loopList)))
		}
	}
	for _, ul := range fc.unboundLoops {
		rep.Notes = append(rep.Notes, fmt.Sprintf("no loop carries the variable %q named by a loop contract: loop contract ignored", ul))
	}
	for _, ca := range cs.CallAsserts {
		if !fc.usedCallAssert[ca.Clause.Label+ca.Clause.Text] {
			// the remaining obligations still decide: a failed one is a violation; if all
			// hold the function is reported undecided (the contract no longer binds fully)
			rep.BindErr = fmt.Sprintf("bind: assert@call(%s#%d) matches no call site", ca.Callee, ca.Ord)
			continue
		}
		if !fc.usedCallAssert["cover:"+ca.Clause.Label+ca.Clause.Text] {
			// a clause keyed on literal pieces whose key occurs at no call site says nothing
			rep.BindErr = fmt.Sprintf("bind: assert@call(%s) %s is trivially true at every call site: the text it is keyed on is gone", ca.Callee, ca.Clause.Label)
		}
	}
	semOnce.Do(func() {
		n := opt.Parallel
		if n <= 0 {
			n = 8
		}
		sem = make(chan struct{}, n)
	})
	// case split: every obligation once per case
	if len(fc.splitCases) > 0 {
		var exp []Oblig
		for _, o := range fc.Obligs {
			if o.Vacuity || o.Goal == smt.True {
				exp = append(exp, o)
				continue
			}
			for k, c := range fc.splitCases {
				oc := o
				oc.Guard = smt.And(o.Guard, c)
				oc.Name = fmt.Sprintf("%s[case %d]", o.Name, k)
				exp = append(exp, oc)
			}
		}
		fc.Obligs = exp
	}
	rep.Results = make([]OblResult, len(fc.Obligs))
	var wg sync.WaitGroup
	for i, o := range fc.Obligs {
		wg.Add(1)
		go func(i int, o Oblig) {
			defer wg.Done()
			sem <- struct{}{}
			defer func() { <-sem }()
			rep.Results[i] = discharge(fc, o, opt)
		}(i, o)
	}
	wg.Wait()
	// immutability scans for the constant tables / global invariants used
	var scanned []string
	for name := range fc.ctVals {
		scanned = append(scanned, name)
	}
	usesInv := false
	for _, u := range cs.UseLemmas {
		if p.GlobalInv(u) != nil {
			usesInv = true
		}
	}
	if usesInv {
		scanned = append(scanned, p.Spec.Immutable...)
	}
	sort.Strings(scanned)
	for i, name := range scanned {
		if i > 0 && scanned[i-1] == name {
			continue
		}
		bad := p.ImmutableScan(name)
		r := OblResult{Oblig: Oblig{Fn: name, Name: fc.Name + "/scan.immutable." + name, Kind: "scan.immutable", Where: name, Text: "no store to " + name + " (or through it) outside init"}, Status: "proved", Raw: "scan", Solver: "ssa-scan"}
		if len(bad) > 0 {
			r.Status = "failed"
			r.Output = strings.Join(bad, "; ")
		}
		rep.Results = append(rep.Results, r)
	}
	for _, key := range smt.SortedKeys(fc.constFieldsUsed) {
		bad := p.ConstFieldScan(key)
		r := OblResult{Oblig: Oblig{Fn: name, Name: fc.Name + "/scan.constfield." + key, Kind: "scan.constfield", Where: key, Text: key + " is stored only into freshly allocated objects"}, Status: "proved", Raw: "scan", Solver: "ssa-scan"}
		if len(bad) > 0 {
			r.Status = "failed"
			r.Output = strings.Join(bad, "; ")
		}
		rep.Results = append(rep.Results, r)
	}
	for _, ti := range p.Spec.TypeInvs {
		if !fc.typeInvUsed[ti.Type] {
			continue
		}
		bad := p.AllocOnlyInScan(ti.Type, ti.Ctor)
		r := OblResult{Oblig: Oblig{Fn: name, Name: fc.Name + "/scan.allocated-only-in." + ti.Ctor, Kind: "scan.typeinv", Where: ti.Type, Text: ti.Type + " is allocated only in " + ti.Ctor}, Status: "proved", Raw: "scan", Solver: "ssa-scan"}
		if len(bad) > 0 {
			r.Status = "failed"
			r.Output = strings.Join(bad, "; ")
		}
		rep.Results = append(rep.Results, r)
	}
	for _, key := range smt.SortedKeys(fc.devirtUsed) {
		target := fc.devirtUsed[key]
		bad := p.FieldIsScan(key, target)
		r := OblResult{Oblig: Oblig{Fn: name, Name: fc.Name + "/scan.fieldis." + key, Kind: "scan.fieldis", Where: key, Text: key + " only ever holds " + target}, Status: "proved", Raw: "scan", Solver: "ssa-scan"}
		if len(bad) > 0 {
			r.Status = "failed"
			r.Output = strings.Join(bad, "; ")
		}
		rep.Results = append(rep.Results, r)
	}
	for _, dt := range p.Spec.Deterministic {
		if dt[1] != name {
			continue
		}
		bad := p.DeterministicScan(dt[0])
		r := OblResult{Oblig: Oblig{Fn: name, Name: fc.Name + "/scan.deterministic." + dt[0], Kind: "scan.deterministic", Where: dt[0], Text: "package " + dt[0] + " has no source of run-to-run variation: no map iteration, select, goroutine, clock, randomness or environment read"}, Status: "proved", Raw: "scan", Solver: "ssa-scan"}
		if len(bad) > 0 {
			r.Status = "failed"
			r.Output = strings.Join(bad, "; ")
		}
		rep.Results = append(rep.Results, r)
	}
	for _, oa := range p.Spec.OverridesAll {
		if oa[2] != name {
			continue
		}
		bad := p.OverridesAllScan(oa[0], oa[1])
		r := OblResult{Oblig: Oblig{Fn: name, Name: fc.Name + "/scan.overridesall." + oa[0], Kind: "scan.overrides", Where: oa[0], Text: oa[0] + " declares every error-returning method of its embedded " + oa[1]}, Status: "proved", Raw: "scan", Solver: "ssa-scan"}
		if len(bad) > 0 {
			r.Status = "failed"
			r.Output = strings.Join(bad, "; ")
		}
		rep.Results = append(rep.Results, r)
	}
	for _, so := range p.Spec.StoredOnlyIn {
		if so[1] != name {
			continue
		}
		bad := p.StoredOnlyInScan(so[0], so[1:])
		r := OblResult{Oblig: Oblig{Fn: name, Name: fc.Name + "/scan.storedonlyin." + so[0], Kind: "scan.stores", Where: so[0], Text: so[0] + " is stored only in " + strings.Join(so[1:], ", ")}, Status: "proved", Raw: "scan", Solver: "ssa-scan"}
		if len(bad) > 0 {
			r.Status = "failed"
			r.Output = strings.Join(bad, "; ")
		}
		rep.Results = append(rep.Results, r)
	}
	for _, oc := range p.Spec.OnlyCalledFrom {
		if oc[1] != name {
			continue
		}
		bad := p.OnlyCalledFromScan(oc[0], oc[1])
		r := OblResult{Oblig: Oblig{Fn: name, Name: fc.Name + "/scan.onlycalledfrom." + oc[0], Kind: "scan.callsites", Where: oc[0], Text: oc[0] + " is read only in " + oc[1]}, Status: "proved", Raw: "scan", Solver: "ssa-scan"}
		if len(bad) > 0 {
			r.Status = "failed"
			r.Output = strings.Join(bad, "; ")
		}
		rep.Results = append(rep.Results, r)
	}
	return rep
}

func discharge(fc *FnCtx, o Oblig, opt Options) OblResult {
	r := OblResult{Oblig: o}
	if o.Goal == smt.True && !o.Vacuity {
		r.Status, r.Raw, r.Solver = "proved", "trivial", "simplifier"
		return r
	}
	var sb strings.Builder
	sb.WriteString(fc.S.Text(o.Pos))
	sb.WriteString("; obligation " + o.Name + "\n")
	for _, h := range o.Hints {
		sb.WriteString("(assert " + h.String() + ")\n")
	}
	sb.WriteString("(assert " + smt.And(o.Guard, smt.Not(o.Goal)).String() + ")\n")
	q := smt.Query{Name: o.Name, Body: sb.String()}
	// values of parameters and path markers for counterexamples
	if !o.Vacuity {
		q.GetValue = fc.modelConsts(o.Pos)
	}
	to := opt.TimeoutS
	solvers := opt.Solvers
	all := opt.All
	if o.Vacuity {
		to = opt.VacuityTimeoutS
		if to <= 0 {
			to = 2
		}
		solvers = solvers[:1]
		all = false
	}
	res := smt.Run(opt.WorkDir, q, solvers, to, all)
	if !o.Vacuity && res.Status == "timeout" && !opt.NoRetry {
		// A timeout is no verdict, and on a loaded machine it says little about the
		// query: try once more, alone in this slot, with six times the budget.
		longer := to * 6
		if longer > 90 {
			longer = 90
		}
		if longer > to {
			if again := smt.Run(opt.WorkDir, q, solvers, longer, all); again.Status != "timeout" || again.Seconds > res.Seconds {
				res = again
			}
		}
	}
	r.Raw, r.Solver, r.Seconds, r.Output, r.Values, r.PerSolver = res.Status, res.Solver, res.Seconds, res.Output, res.Values, res.All
	r.QuerySize = len(q.Body)
	switch {
	case o.Vacuity && res.Status == "unsat":
		r.Status = "vacuous"
	case o.Vacuity:
		r.Status = "ok"
	case res.Status == "unsat":
		r.Status = "proved"
	case res.Status == "error":
		// the solvers rejected the query or disagreed: a fault of the engine, never a verdict
		r.Status = "engine-error"
	default:
		r.Status = "failed"
	}
	if !opt.KeepFiles && r.Status != "failed" && r.Status != "vacuous" && r.Status != "engine-error" {
		for _, sv := range solvers {
			os.Remove(fmt.Sprintf("%s/%s.%s.smt2", opt.WorkDir, smt.Ident(q.Name), sv.Name))
		}
	}
	return r
}

// modelConsts lists declared scalar constants worth reporting in a model.
func (fc *FnCtx) modelConsts(pos int) []string {
	var out []string
	for _, it := range fc.S.Items[:pos] {
		if it.Kind != smt.KDecl || len(it.ArgS) != 0 {
			continue
		}
		if it.Sort != smt.Int && it.Sort != smt.Bool {
			continue
		}
		if strings.HasPrefix(it.Name, "p_") || strings.HasPrefix(it.Name, "r_") || strings.HasPrefix(it.Name, "L") || strings.HasPrefix(it.Name, "fv_") {
			out = append(out, it.Name)
		}
	}
	// lengths of sequence parameters
	for _, it := range fc.S.Items[:pos] {
		if it.Kind == smt.KDecl && len(it.ArgS) == 0 && it.Sort == smt.Seq && (strings.HasPrefix(it.Name, "p_") || strings.HasPrefix(it.Name, "r_")) {
			out = append(out, "(slen "+it.Name+")")
			for i := 0; i < 8; i++ {
				out = append(out, fmt.Sprintf("(sat %s %d)", it.Name, i))
			}
		}
	}
	if len(out) > 120 {
		out = out[:120]
	}
	return out
}
