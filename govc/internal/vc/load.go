// Package vc generates verification conditions from go/ssa functions and
// contracts and discharges them with SMT solvers.
package vc

import (
	"fmt"
	"go/types"
	"os"
	"path/filepath"
	"regexp"
	"sort"
	"strings"

	"golang.org/x/tools/go/packages"
	"golang.org/x/tools/go/ssa"
	"golang.org/x/tools/go/ssa/ssautil"

	"govc/internal/spec"
)

// Program is the loaded repository plus contracts.
type Program struct {
	Repo     string
	Prog     *ssa.Program
	Pkgs     []*ssa.Package // packages under verification (root + plugin)
	Root     *ssa.Package
	Funcs    map[string]*ssa.Function // qualified name (relative to its package) -> function; root package wins
	FuncPkg  map[*ssa.Function]*ssa.Package
	Spec     *spec.File
	Contract map[string]*spec.FuncSpec // by name
	SpecFn   map[string]*spec.SpecFn
	Ghost    map[string]*spec.GhostField
	Sentinel map[string]int // qualified name -> distinct id
	SentinelKind map[string]string // plain (wraps nothing) | custom (facts given by axioms)
	SpecFiles []string
	SrcPkgs []*packages.Package
	protoMsg *types.Interface // google.golang.org/protobuf/proto.Message (nil if not found)
	canonStruct map[*types.Struct]string
}

var typeArgsRe = regexp.MustCompile(`\[[^\[\]]*\]`)

func stripTypeArgs(s string) string {
	for {
		t := typeArgsRe.ReplaceAllString(s, "")
		if t == s {
			return s
		}
		s = t
	}
}

// Load loads the packages of repo (build tag verif), builds SSA and parses the
// contract files: <repo>/verif_contracts.go, <repo>/cmd/.../verif_contracts.go
// and every *.spec under specDir.
func Load(repo, specDir string) (*Program, error) {
	cfg := &packages.Config{
		Mode:       packages.LoadAllSyntax,
		Dir:        repo,
		BuildFlags: []string{"-tags=verif"},
		Env:        append(os.Environ(), "GOFLAGS=-mod=mod", "GOPROXY=off", "GOSUMDB=off", "GOTOOLCHAIN=local"),
	}
	pkgs, err := packages.Load(cfg, ".", "./cmd/protoc-gen-connect-go")
	if err != nil {
		return nil, err
	}
	for _, p := range pkgs {
		for _, e := range p.Errors {
			return nil, fmt.Errorf("package %s: %v", p.PkgPath, e)
		}
	}
	prog, spkgs := ssautil.AllPackages(pkgs, ssa.InstantiateGenerics|ssa.GlobalDebug)
	prog.Build()
	p := &Program{Repo: repo, Prog: prog, Funcs: map[string]*ssa.Function{}, FuncPkg: map[*ssa.Function]*ssa.Package{},
		Contract: map[string]*spec.FuncSpec{}, SpecFn: map[string]*spec.SpecFn{}, Ghost: map[string]*spec.GhostField{}, Sentinel: map[string]int{}, SentinelKind: map[string]string{}}
	p.SrcPkgs = pkgs
	for _, sp := range spkgs {
		if sp == nil {
			continue
		}
		p.Pkgs = append(p.Pkgs, sp)
		if p.Root == nil {
			p.Root = sp
		}
	}
	// index functions (including methods, closures, instantiations)
	all := ssautil.AllFunctions(prog)
	// methods of generic named types are not reachable from any method set: add them
	// (and their closures) by hand
	var addFn func(fn *ssa.Function)
	addFn = func(fn *ssa.Function) {
		if fn == nil || all[fn] {
			return
		}
		all[fn] = true
		for _, a := range fn.AnonFuncs {
			addFn(a)
		}
	}
	for _, sp := range p.Pkgs {
		sc := sp.Pkg.Scope()
		for _, n := range sc.Names() {
			tn, ok := sc.Lookup(n).(*types.TypeName)
			if !ok {
				continue
			}
			named, ok := tn.Type().(*types.Named)
			if !ok || named.TypeParams().Len() == 0 {
				continue
			}
			for i := 0; i < named.NumMethods(); i++ {
				addFn(prog.FuncValue(named.Method(i)))
			}
		}
	}
	for fn := range all {
		if fn.Pkg == nil && fn.Origin() == nil && fn.Parent() == nil {
			continue
		}
		pk := fn.Pkg
		if pk == nil && fn.Origin() != nil {
			pk = fn.Origin().Pkg
		}
		root := fn
		for root.Parent() != nil {
			root = root.Parent()
			if root.Pkg != nil {
				pk = root.Pkg
			} else if root.Origin() != nil {
				pk = root.Origin().Pkg
			}
		}
		isOurs := false
		for _, sp := range p.Pkgs {
			if sp == pk {
				isOurs = true
			}
		}
		if !isOurs {
			continue
		}
		if fn.Blocks == nil {
			continue
		}
		name := stripTypeArgs(fn.RelString(pk.Pkg))
		if old, ok := p.Funcs[name]; ok {
			// prefer root package, then the non-instantiated / first instantiation deterministically
			if p.FuncPkg[old] == p.Root && pk != p.Root {
				continue
			}
			if p.FuncPkg[old] == pk && old.String() <= fn.String() {
				continue
			}
		}
		p.Funcs[name] = fn
		p.FuncPkg[fn] = pk
	}
	// contracts
	p.Spec = &spec.File{}
	var files []string
	for _, f := range []string{filepath.Join(repo, "verif_contracts.go"), filepath.Join(repo, "cmd/protoc-gen-connect-go/verif_contracts.go")} {
		if _, err := os.Stat(f); err == nil {
			files = append(files, f)
		}
	}
	more, _ := filepath.Glob(filepath.Join(specDir, "*.spec"))
	sort.Strings(more)
	files = append(files, more...)
	for _, f := range files {
		sf, err := spec.ParseFile(f)
		if err != nil {
			return nil, err
		}
		p.Spec.Merge(sf)
	}
	// canonical names for struct definitions shared by several named types
	p.canonStruct = map[*types.Struct]string{}
	for _, sp := range p.Pkgs {
		sc := sp.Pkg.Scope()
		for _, n := range sc.Names() {
			tn, ok := sc.Lookup(n).(*types.TypeName)
			if !ok {
				continue
			}
			st, ok := tn.Type().Underlying().(*types.Struct)
			if !ok || st.NumFields() == 0 {
				continue
			}
			name := p.TypeStr(tn.Type(), nil)
			if old, have := p.canonStruct[st]; !have || len(name) < len(old) || (len(name) == len(old) && name < old) {
				p.canonStruct[st] = name
			}
		}
	}
	p.SpecFiles = files
	for _, fs := range p.Spec.Funcs {
		if _, dup := p.Contract[fs.Name]; dup {
			return nil, fmt.Errorf("%s:%d: duplicate contract for %s", fs.File, fs.Line, fs.Name)
		}
		p.Contract[fs.Name] = fs
	}
	p.bindAnchoredClosures()
	for _, sf := range p.Spec.SpecFns {
		p.SpecFn[sf.Name] = sf
	}
	for _, g := range p.Spec.Ghosts {
		p.Ghost[g.Name] = g
	}
	for i, s := range p.Spec.Sentinels {
		kind := "plain"
		if strings.HasPrefix(s, "custom ") {
			kind = "custom"
			s = strings.TrimSpace(s[len("custom "):])
		}
		p.Sentinel[s] = i + 1
		p.SentinelKind[s] = kind
	}
	return p, nil
}

// FuncName is the lookup key of a function relative to the verified packages.
func (p *Program) FuncName(fn *ssa.Function) string {
	pk := p.FuncPkg[fn]
	if pk != nil {
		return stripTypeArgs(fn.RelString(pk.Pkg))
	}
	// external: relative to root package so that names read "io.ReadFull", "(*bytes.Buffer).Grow"
	return stripTypeArgs(fn.RelString(p.Root.Pkg))
}

// qualifier prints types relative to the root package ("io.Reader", "Codec").
func (p *Program) qualifier(from *types.Package) types.Qualifier {
	return func(other *types.Package) string {
		if other == from {
			return ""
		}
		for _, sp := range p.Pkgs {
			if sp.Pkg == other && from == nil {
				return ""
			}
		}
		return other.Name()
	}
}

// TypeStr prints a type relative to the verified package pk (nil = root).
func (p *Program) TypeStr(t types.Type, pk *types.Package) string {
	if pk == nil {
		pk = p.Root.Pkg
	}
	return stripTypeArgs(types.TypeString(t, p.qualifier(pk)))
}

// GlobalName prints a global's qualified name relative to pk.
func (p *Program) GlobalName(g *ssa.Global, pk *types.Package) string {
	if pk == nil {
		pk = p.Root.Pkg
	}
	if g.Pkg != nil && g.Pkg.Pkg == pk {
		return g.Name()
	}
	if g.Pkg != nil {
		return g.Pkg.Pkg.Name() + "." + g.Name()
	}
	return g.Name()
}

// FunctionsUnderContract lists non-trusted contracts that bind to a function.
func (p *Program) FunctionsUnderContract() []string {
	var out []string
	for name, fs := range p.Contract {
		if fs.Trusted && !fs.CheckSafety {
			continue
		}
		out = append(out, name)
	}
	sort.Strings(out)
	return out
}

func hasTag(tags []string, t string) bool {
	for _, x := range tags {
		if x == t {
			return true
		}
	}
	return false
}

func trimPkg(s string) string {
	if i := strings.LastIndex(s, "/"); i >= 0 {
		return s[i+1:]
	}
	return s
}

// goTypeByName resolves "pkg.Type" / "Type" (root package) to a Go type, or nil.
func (p *Program) goTypeByName(name string) types.Type {
	ptr := false
	if strings.HasPrefix(name, "*") {
		ptr = true
		name = name[1:]
	}
	var obj types.Object
	if i := strings.Index(name, "."); i >= 0 {
		for _, sp := range p.Pkgs {
			for _, imp := range sp.Pkg.Imports() {
				if imp.Name() == name[:i] {
					obj = imp.Scope().Lookup(name[i+1:])
				}
			}
		}
	} else {
		switch name {
		case "int", "bool", "seq", "ref", "slice", "strlist":
			return nil
		}
		obj = p.Root.Pkg.Scope().Lookup(name)
	}
	if obj == nil {
		return nil
	}
	tn, ok := obj.(*types.TypeName)
	if !ok {
		return nil
	}
	if ptr {
		return types.NewPointer(tn.Type())
	}
	return tn.Type()
}

// rootNonProtoType: name (as printed relative to the root package) is a type
// of the root package - possibly behind pointers - that does not implement
// proto.Message. Only then may a protobuf decoder's frame skip it.
func (p *Program) rootNonProtoType(name string) bool {
	name = strings.TrimLeft(name, "*")
	if strings.ContainsAny(name, ".[]( ") {
		return false
	}
	obj := p.Root.Pkg.Scope().Lookup(name)
	tn, ok := obj.(*types.TypeName)
	if !ok {
		return false
	}
	if p.protoMsg == nil {
		for _, imp := range p.Root.Pkg.Imports() {
			if imp.Path() == "google.golang.org/protobuf/proto" {
				if o, ok := imp.Scope().Lookup("Message").(*types.TypeName); ok {
					p.protoMsg, _ = o.Type().Underlying().(*types.Interface)
				}
			}
		}
		if p.protoMsg == nil {
			return false
		}
	}
	t := tn.Type()
	if _, isNamed := t.(*types.Named); isNamed {
		if tp := t.(*types.Named).TypeParams(); tp != nil && tp.Len() > 0 {
			return !hasMethod(t, "ProtoReflect")
		}
	}
	return !types.Implements(t, p.protoMsg) && !types.Implements(types.NewPointer(t), p.protoMsg)
}

func hasMethod(t types.Type, name string) bool {
	ms := types.NewMethodSet(types.NewPointer(t))
	for i := 0; i < ms.Len(); i++ {
		if ms.At(i).Obj().Name() == name {
			return true
		}
	}
	return false
}

// bindAnchoredClosures: a closure's contract is named after the closure's
// ordinal in its function (F$2), which changes when a function literal is added
// or removed in front of it. A contract that carries `anchor "text"` binds to
// the one closure of F whose literal starts on a source line containing the
// text, whatever its ordinal: the contract - and every contract named after it
// (F$2.next, F$2$1) - is renamed to that closure's current name.
func (p *Program) bindAnchoredClosures() {
	lines := map[string][]string{}
	lineAt := func(fn *ssa.Function) string {
		pos := p.Prog.Fset.Position(fn.Pos())
		if !pos.IsValid() {
			return ""
		}
		ls, ok := lines[pos.Filename]
		if !ok {
			if data, err := os.ReadFile(pos.Filename); err == nil {
				ls = strings.Split(string(data), "\n")
			}
			lines[pos.Filename] = ls
		}
		if pos.Line-1 < len(ls) && pos.Line >= 1 {
			return ls[pos.Line-1]
		}
		return ""
	}
	rename := map[string]string{}
	var olds []string
	for name, cs := range p.Contract {
		if cs.Anchor == "" {
			continue
		}
		i := strings.LastIndex(name, "$")
		if i < 0 {
			cs.AnchorErr = "anchor on a contract that is not a closure's"
			continue
		}
		parent := p.Funcs[name[:i]]
		if parent == nil {
			cs.AnchorErr = "anchor: no function " + name[:i]
			continue
		}
		var hits []*ssa.Function
		for _, a := range parent.AnonFuncs {
			if strings.Contains(lineAt(a), cs.Anchor) {
				hits = append(hits, a)
			}
		}
		if len(hits) == 0 {
			// the anchored line itself was edited: fall back to the ordinal the contract is named after
			continue
		}
		if len(hits) > 1 {
			byOrdinal := false
			for _, h := range hits {
				if p.FuncName(h) == name {
					byOrdinal = true
				}
			}
			if !byOrdinal {
				cs.AnchorErr = fmt.Sprintf("anchor %q matches %d function literals of %s", cs.Anchor, len(hits), name[:i])
			}
			continue
		}
		if now := p.FuncName(hits[0]); now != name {
			rename[name] = now
			olds = append(olds, name)
		}
	}
	if len(rename) == 0 {
		return
	}
	sort.Strings(olds)
	moved := map[string]*spec.FuncSpec{}
	for key, cs := range p.Contract {
		for _, old := range olds {
			if key == old || strings.HasPrefix(key, old+".") || strings.HasPrefix(key, old+"$") {
				nk := rename[old] + key[len(old):]
				moved[nk] = cs
				delete(p.Contract, key)
				cs.Name = nk
				break
			}
		}
	}
	// the callee names inside clauses follow: assert@call(F$2.next), callres("F$2.next", 1)
	renamed := func(n string) string {
		prefix := ""
		if strings.HasPrefix(n, "go ") {
			prefix, n = "go ", n[3:]
		}
		for _, old := range olds {
			if n == old || strings.HasPrefix(n, old+".") || strings.HasPrefix(n, old+"$") {
				return prefix + rename[old] + n[len(old):]
			}
		}
		return prefix + n
	}
	fixExpr := func(e spec.Expr) {
		walk(e, func(x spec.Expr) {
			if c, ok := x.(*spec.Call); ok && (c.Fun == "called" || c.Fun == "callres" || c.Fun == "callresb" || c.Fun == "panicked" || c.Fun == "panicval") && len(c.Args) > 0 {
				if lit, ok := c.Args[0].(*spec.StrLit); ok {
					lit.Val = renamed(lit.Val)
				}
			}
		})
	}
	all := map[*spec.FuncSpec]bool{}
	for _, cs := range p.Contract {
		all[cs] = true
	}
	for _, cs := range moved {
		all[cs] = true
	}
	for cs := range all {
		for i := range cs.CallAsserts {
			cs.CallAsserts[i].Callee = renamed(cs.CallAsserts[i].Callee)
			fixExpr(cs.CallAsserts[i].Clause.E)
		}
		for _, cl := range cs.Requires {
			fixExpr(cl.E)
		}
		for _, cl := range cs.Ensures {
			fixExpr(cl.E)
		}
		for _, cl := range cs.PanicEnsures {
			fixExpr(cl.E)
		}
		for _, ls := range cs.Loops {
			for _, inv := range ls.Invariants {
				fixExpr(inv.E)
			}
		}
		for i := range cs.Implements {
			cs.Implements[i] = renamed(cs.Implements[i])
		}
	}
	for nk, cs := range moved {
		if other, clash := p.Contract[nk]; clash && other != cs {
			cs.AnchorErr = "anchor: the closure found is already under contract as " + nk + " (give that contract an anchor too)"
			continue
		}
		p.Contract[nk] = cs
	}
}
