package vc

import (
	"govc/internal/spec"
	"fmt"
	"go/constant"
	"go/token"
	"go/types"

	"golang.org/x/tools/go/ssa"

	"govc/internal/smt"
)

func constString(c *ssa.Const) string { return constant.StringVal(c.Value) }

func (fc *FnCtx) instr(in ssa.Instruction, st *State) {
	g := fc.curReach
	where := fc.pos(in.Pos())
	switch x := in.(type) {
	case *ssa.DebugRef:
		return
	case *ssa.Alloc:
		fc.vals[x] = fc.alloc(x, st)
	case *ssa.UnOp:
		fc.vals[x] = fc.unop(x, st, g, where)
	case *ssa.BinOp:
		fc.vals[x] = fc.binop(x.Op, fc.val(x.X), fc.val(x.Y), x.X.Type(), x.Type(), g, where)
	case *ssa.Store:
		addr := fc.val(x.Addr)
		if addr.Loc == nil {
			fc.refuse("store through non-location %v", x.Addr)
		}
		fc.storeLoc(st, addr.Loc, x.Val.Type(), fc.val(x.Val), g, where)
	case *ssa.FieldAddr:
		fc.vals[x] = fc.fieldAddr(x, st, g, where)
	case *ssa.Field:
		v := fc.val(x.X)
		if v.Fs == nil {
			fc.refuse("field of non-struct value")
		}
		fc.vals[x] = v.Fs[x.Field]
	case *ssa.IndexAddr:
		fc.vals[x] = fc.indexAddr(x, st, g, where)
	case *ssa.Index:
		fc.vals[x] = fc.index(x, st, g, where)
	case *ssa.Slice:
		fc.vals[x] = fc.slice(x, st, g, where)
	case *ssa.Lookup:
		fc.vals[x] = fc.lookup(x, st, g, where)
	case *ssa.Extract:
		t := fc.val(x.Tuple)
		if t.Fs == nil {
			fc.refuse("extract from non-tuple")
		}
		fc.vals[x] = t.Fs[x.Index]
	case *ssa.Convert:
		fc.vals[x] = fc.convert(x, st, g, where)
	case *ssa.ChangeType:
		v := fc.val(x.X)
		v.GoT = x.Type()
		if v.T != nil {
			v = fc.retype(v, x.Type())
		}
		if _, isPtr := x.Type().Underlying().(*types.Pointer); isPtr && !types.Identical(x.Type(), x.X.Type()) {
			v.Conv = true
		}
		fc.vals[x] = v
	case *ssa.ChangeInterface:
		v := fc.val(x.X)
		// Go's type system: a non-nil value of static interface type I holds a
		// dynamic type that implements I (so a concrete type that does not is
		// excluded - decided by go/types, see implFact).
		if it, ok := x.X.Type().Underlying().(*types.Interface); ok && it.NumMethods() > 0 && v.T != nil && !fc.dry {
			fn := fc.implementsFn(x.X.Type())
			fc.S.Assert(smt.Implies(smt.Neq(v.T, smt.IntLit(0)), smt.App(fn, smt.Bool, fc.dtype(v.T))), "static interface type of "+x.X.Name())
			fc.Used["Go's type system: a non-nil value of static interface type I holds a dynamic type that implements I (go/types decides which of the concrete types named in contracts do)"] = true
		}
		v.GoT = x.Type()
		fc.vals[x] = v
	case *ssa.MakeInterface:
		fc.vals[x] = fc.makeInterface(x, st, g, where)
	case *ssa.TypeAssert:
		fc.vals[x] = fc.typeAssert(x, st, g, where)
	case *ssa.MakeClosure:
		fn := x.Fn.(*ssa.Function)
		c := &Closure{Fn: fn}
		onlyDeferred := true
		if refs := x.Referrers(); refs != nil {
			for _, r := range *refs {
				switch r.(type) {
				case *ssa.Defer, *ssa.DebugRef:
				default:
					onlyDeferred = false
				}
			}
		}
		for _, b := range x.Bindings {
			bv := fc.val(b)
			if !onlyDeferred {
				fc.markEscaped(bv) // the closure may run at any later time
			}
			c.Bindings = append(c.Bindings, bv)
		}
		fc.vals[x] = Val{Clo: c, GoT: x.Type()}
		fc.closureRequires(x, fn, c, st, g, where)
	case *ssa.MakeSlice:
		if kindOf(x.Type()) == KStrList {
			ln := fc.term(fc.val(x.Len))
			fc.safety("bounds", g, smt.Le(smt.IntLit(0), ln), where)
			z := fc.S.Fresh("mkS", smt.SList)
			i := smt.Const("i!m", smt.Int)
			fc.S.Assert(smt.Implies(smt.Ge(ln, smt.IntLit(0)), smt.Eq(smt.LLen(z), ln)), "")
			fc.S.Assert(smt.Forall([]*smt.Term{i}, smt.Eq(smt.LAt(z, i), smt.SEmpty), []*smt.Term{smt.LAt(z, i)}), "")
			fc.vals[x] = Val{T: z, GoT: x.Type()}
			return
		}
		ln := fc.term(fc.val(x.Len))
		cp := fc.term(fc.val(x.Cap))
		fc.safety("bounds", g, smt.And(smt.Le(smt.IntLit(0), ln), smt.Le(ln, cp)), where)
		arr := fc.newRef()
		z := fc.S.Fresh("mk", smt.Seq)
		i := smt.Const("i!m", smt.Int)
		fc.S.Assert(smt.Implies(smt.Ge(cp, smt.IntLit(0)), smt.Eq(smt.SLen(z), cp)), "")
		fc.S.Assert(smt.Forall([]*smt.Term{i}, smt.Eq(smt.SAt(z, i), smt.IntLit(0)), []*smt.Term{smt.SAt(z, i)}), "")
		fc.writeKey(st, "elems", arr, z)
		fc.vals[x] = Val{T: smt.MkSlice(arr, smt.IntLit(0), ln, cp), GoT: x.Type()}
	case *ssa.MakeMap:
		fc.vals[x] = fc.makeMap(x, st)
	case *ssa.MapUpdate:
		fc.mapUpdate(x, st, g, where)
	case *ssa.Range:
		fc.vals[x] = fc.rangeInit(x, st, g, where)
	case *ssa.Next:
		fc.vals[x] = fc.rangeNext(x, st, g, where)
	case *ssa.Call:
		fc.vals[x] = fc.call(x, &x.Call, st, g, where)
	case *ssa.Defer:
		d := deferRec{instr: x, guard: g}
		for _, a := range x.Call.Args {
			d.args = append(d.args, fc.val(a))
		}
		if !x.Call.IsInvoke() {
			d.fnVal = fc.val(x.Call.Value)
		} else {
			d.fnVal = fc.val(x.Call.Value)
		}
		fc.defers = append(fc.defers, d)
	case *ssa.RunDefers:
		fc.runDefers(st, g, where)
	case *ssa.Go:
		fc.abstr("go statement (sequential model: no-op)")
		// the spawned call is a site for call-site assertions - what holds at the
		// moment the goroutine is started - under the name "go <callee>"
		if !fc.dry {
			cc := &x.Call
			var name string
			var args []Val
			switch {
			case cc.IsInvoke():
				name = fc.P.TypeStr(cc.Value.Type(), nil) + "." + cc.Method.Name()
				args = append(args, fc.val(cc.Value))
			case cc.StaticCallee() != nil:
				name = fc.nameOfFn(cc.StaticCallee())
			default:
				name = fc.funcValueName(cc.Value)
			}
			for _, a := range cc.Args {
				args = append(args, fc.val(a))
			}
			name = "go " + name
			fc.callOrd[name]++
			fc.callGuard[fmt.Sprintf("%s#%d", name, fc.callOrd[name])] = g
			fc.callAsserts(name, fc.callOrd[name], true, args, nil, cc, x, st, g, where)
		}
	case *ssa.Send:
		fc.abstr("channel send (no-op)")
	case *ssa.Select:
		fc.abstr("select (result unconstrained)")
		fc.vals[x] = fc.freshVal("select", x.Type())
	case *ssa.MakeChan:
		fc.vals[x] = fc.fromTerm(fc.newRef(), x.Type())
	case *ssa.SliceToArrayPointer:
		fc.abstr("slice to array pointer")
		fc.vals[x] = fc.freshVal("s2a", x.Type())
	case *ssa.MultiConvert:
		fc.abstr("multiconvert")
		fc.vals[x] = fc.freshVal("mconv", x.Type())
	case *ssa.If:
		c := fc.term(fc.val(x.Cond))
		b := x.Block()
		fc.edge[[2]int{b.Index, b.Succs[0].Index}] = fc.S.Define(fmt.Sprintf("e!%d_%d", b.Index, b.Succs[0].Index), smt.And(g, c))
		fc.edge[[2]int{b.Index, b.Succs[1].Index}] = fc.S.Define(fmt.Sprintf("e!%d_%d", b.Index, b.Succs[1].Index), smt.And(g, smt.Not(c)))
		fc.backEdges(b, st)
	case *ssa.Jump:
		b := x.Block()
		fc.edge[[2]int{b.Index, b.Succs[0].Index}] = g
		fc.backEdges(b, st)
	case *ssa.Return:
		fc.ret(x, st, g, where)
	case *ssa.Panic:
		fc.explicitPanic(x, st, g, where)
	default:
		fc.refuse("unsupported instruction %T", in)
	}
}

func (fc *FnCtx) alloc(x *ssa.Alloc, st *State) Val {
	elem := x.Type().(*types.Pointer).Elem()
	ref := fc.newRef()
	v := fc.fromTerm(ref, x.Type())
	if kindOf(elem) == KStruct {
		fc.S.Assert(smt.Eq(fc.dtype(ref), fc.typeID(x.Type())), "")
	}
	z := fc.zeroVal(elem)
	fc.inAlloc = true
	fc.storeLoc(st, v.Loc, elem, z, smt.True, "")
	fc.inAlloc = false
	// "The zero value for Buffer is an empty buffer ready to use" (package bytes):
	// a freshly allocated one is owned by this function and holds nothing.
	if nt, ok := elem.(*types.Named); ok && nt.Obj().Pkg() != nil && nt.Obj().Pkg().Path() == "bytes" && nt.Obj().Name() == "Buffer" {
		gv, hasV := fc.P.Ghost["view"]
		if _, has := fc.P.Ghost["owned"]; has && hasV {
			fc.getHeap(st, "ghost:owned", smt.Bool)
			fc.getHeap(st, "ghost:view", specSort(gv.Type))
			fc.writeKey(st, "ghost:owned", ref, smt.True)
			fc.writeKey(st, "ghost:view", ref, smt.SEmpty)
			fc.Used["the zero value for bytes.Buffer is an empty buffer ready to use (package documentation): a freshly allocated one is owned and empty"] = true
		}
	}
	return v
}

func (fc *FnCtx) unop(x *ssa.UnOp, st *State, g *smt.Term, where string) Val {
	v := fc.val(x.X)
	switch x.Op {
	case token.MUL: // load
		if v.Loc == nil {
			fc.refuse("load through non-location %s", x.X.Name())
		}
		// immutable sentinels
		if v.Loc.Kind == LGlobal {
			if id, ok := fc.sentinelOf(v.Loc.Key); ok {
				return fc.fromTerm(id, x.Type())
			}
			if fc.P.isConstTable(v.Loc.Key[2:]) {
				return fc.constTableVal(v.Loc.Key[2:], x.Type(), st)
			}
		}
		return fc.loadLoc(st, v.Loc, x.Type(), g, where)
	case token.NOT:
		return Val{T: smt.Not(fc.term(v)), GoT: x.Type()}
	case token.SUB:
		r := smt.Neg(fc.term(v))
		fc.safety("overflow", g, inRange(r, x.Type()), where)
		return Val{T: r, GoT: x.Type()}
	case token.XOR:
		// ^x == -x-1 for signed; for unsigned max-x
		lo, hi, _ := intRange(x.Type())
		if lo == "0" {
			return Val{T: smt.Sub(smt.BigLit(hi), fc.term(v)), GoT: x.Type()}
		}
		return Val{T: smt.Sub(smt.Neg(fc.term(v)), smt.IntLit(1)), GoT: x.Type()}
	case token.ARROW:
		fc.abstr("channel receive (value unconstrained)")
		return fc.freshVal("recv", x.Type())
	}
	fc.refuse("unsupported unary operator %s", x.Op)
	return Val{}
}

func (fc *FnCtx) sentinelOf(key string) (*smt.Term, bool) {
	name := key[2:] // strip "g:"
	id, ok := fc.P.Sentinel[name]
	if !ok {
		return nil, false
	}
	return fc.sentinelTerm(name, id), true
}

func (fc *FnCtx) sentinelTerm(name string, id int) *smt.Term {
	// sentinels are the fixed positive references 1000000+id
	_ = name
	return smt.IntLit(int64(1000000 + id))
}

func isPow2(v int64) bool { return v > 0 && v&(v-1) == 0 }

func (fc *FnCtx) binop(op token.Token, xv, yv Val, xt, rt types.Type, g *smt.Term, where string) Val {
	k := kindOf(xt)
	switch op {
	case token.EQL, token.NEQ:
		var eq *smt.Term
		switch {
		case k == KStr:
			eq = smt.SEq(fc.term(xv), fc.term(yv))
		case k == KStruct || k == KArray || k == KStrArr:
			fc.abstr("struct/array comparison")
			return fc.freshVal("cmp", rt)
		case k == KStrList:
			// only comparison with nil is legal: nil and empty are identified (stated abstraction)
			a, b := fc.term(xv), fc.term(yv)
			if a.Sort != smt.SList {
				a = smt.LNil
			}
			if b.Sort != smt.SList {
				b = smt.LNil
			}
			eq = smt.Eq(smt.LLen(a), smt.LLen(b))
		default:
			eq = smt.Eq(fc.term(xv), fc.term(yv))
		}
		if op == token.NEQ {
			eq = smt.Not(eq)
		}
		return Val{T: eq, GoT: rt}
	}
	if k == KStr {
		switch op {
		case token.ADD:
			r := smt.SCat(fc.term(xv), fc.term(yv))
			return Val{T: r, GoT: rt}
		}
		fc.abstr("string ordering comparison")
		return fc.freshVal("strcmp", rt)
	}
	if k == KBool {
		x, y := fc.term(xv), fc.term(yv)
		switch op {
		case token.LAND, token.AND:
			return Val{T: smt.And(x, y), GoT: rt}
		case token.LOR, token.OR:
			return Val{T: smt.Or(x, y), GoT: rt}
		}
	}
	if k != KInt {
		fc.abstr("arithmetic on unsupported type " + xt.String())
		return fc.freshVal("arith", rt)
	}
	x, y := fc.term(xv), fc.term(yv)
	switch op {
	case token.LSS:
		return Val{T: smt.Lt(x, y), GoT: rt}
	case token.LEQ:
		return Val{T: smt.Le(x, y), GoT: rt}
	case token.GTR:
		return Val{T: smt.Gt(x, y), GoT: rt}
	case token.GEQ:
		return Val{T: smt.Ge(x, y), GoT: rt}
	}
	var r *smt.Term
	switch op {
	case token.ADD:
		r = smt.Add(x, y)
	case token.SUB:
		r = smt.Sub(x, y)
	case token.MUL:
		r = smt.Mul(x, y)
	case token.QUO:
		fc.safety("div", g, smt.Neq(y, smt.IntLit(0)), where)
		if y.Op == "ite" && smt.IsLitIte(y) {
			r = smt.MapIte(y, func(l *smt.Term) *smt.Term { return smt.App("gdiv", smt.Int, x, l) })
		} else {
			r = smt.App("gdiv", smt.Int, x, y)
		}
	case token.REM:
		fc.safety("div", g, smt.Neq(y, smt.IntLit(0)), where)
		r = smt.App("gmod", smt.Int, x, y)
		return Val{T: r, GoT: rt}
	case token.AND:
		if c, ok := y.IsIntLit(); ok && isPow2(c) {
			r = smt.Ite(smt.App("bit", smt.Bool, x, y), y, smt.IntLit(0))
		} else if c, ok := x.IsIntLit(); ok && isPow2(c) {
			r = smt.Ite(smt.App("bit", smt.Bool, y, x), x, smt.IntLit(0))
		} else if c, ok := y.IsIntLit(); ok && c >= 0 && isPow2(c+1) {
			r = smt.Mod(x, smt.IntLit(c+1)) // x & (2^k-1), x >= 0 assumed for unsigned
			if lo, _, _ := intRange(xt); lo != "0" {
				r = smt.App("band", smt.Int, x, y)
			}
		} else {
			r = smt.App("band", smt.Int, x, y)
		}
		return Val{T: r, GoT: rt}
	case token.OR:
		if c, ok := y.IsIntLit(); ok && isPow2(c) {
			r = smt.Ite(smt.App("bit", smt.Bool, x, y), x, smt.Add(x, y))
		} else if c, ok := x.IsIntLit(); ok && isPow2(c) {
			r = smt.Ite(smt.App("bit", smt.Bool, y, x), y, smt.Add(y, x))
		} else {
			r = smt.App("bor", smt.Int, x, y)
		}
		return Val{T: r, GoT: rt}
	case token.XOR:
		return Val{T: smt.App("bxor", smt.Int, x, y), GoT: rt}
	case token.SHL, token.SHR, token.AND_NOT:
		if c, ok := y.IsIntLit(); ok && c >= 0 && c < 62 && (op == token.SHL || op == token.SHR) {
			p := smt.IntLit(int64(1) << uint(c))
			if op == token.SHL {
				r = smt.Mul(x, p)
				break
			}
			if lo, _, _ := intRange(xt); lo == "0" {
				return Val{T: smt.Div(x, p), GoT: rt}
			}
		}
		fc.abstr("shift / and-not (result unconstrained)")
		return fc.freshVal("bitop", rt)
	default:
		fc.refuse("unsupported binary operator %s", op)
	}
	fc.safety("overflow", g, inRange(r, rt), where)
	return Val{T: r, GoT: rt}
}

func (fc *FnCtx) fieldAddr(x *ssa.FieldAddr, st *State, g *smt.Term, where string) Val {
	base := fc.val(x.X)
	pt := x.X.Type().Underlying().(*types.Pointer)
	key, ft := fc.fieldKey(pt.Elem(), x.Field)
	ref := fc.term(base)
	fc.nilCheck(ref, g, where)
	if kindOf(ft) == KStruct {
		return fc.fromTerm(fc.subRef(key, ref), x.Type())
	}
	if kindOf(ft) == KArray {
		// array field: its backing store is a cell derived from the struct reference
		return Val{Loc: &Loc{Kind: LCell, Base: fc.subRef(key, ref), Key: "elems", Elem: ft}, GoT: x.Type()}
	}
	return Val{Loc: &Loc{Kind: LField, Base: ref, Key: key, Elem: ft}, GoT: x.Type()}
}

func (fc *FnCtx) indexAddr(x *ssa.IndexAddr, st *State, g *smt.Term, where string) Val {
	idx := fc.term(fc.val(x.Index))
	xv := fc.val(x.X)
	switch t := x.X.Type().Underlying().(type) {
	case *types.Pointer: // *[N]T
		arr := t.Elem().Underlying().(*types.Array)
		fc.safety("bounds", g, smt.And(smt.Le(smt.IntLit(0), idx), smt.Lt(idx, smt.IntLit(arr.Len()))), where)
		ref := fc.term(xv)
		fc.nilCheck(ref, g, where)
		if kindOf(t.Elem()) == KStrArr {
			return Val{Loc: &Loc{Kind: LStrElem, Base: ref, Idx: idx, Elem: arr.Elem()}, GoT: x.Type()}
		}
		return Val{Loc: &Loc{Kind: LElem, Base: ref, Idx: idx, Elem: arr.Elem()}, GoT: x.Type()}
	case *types.Slice:
		s := fc.term(xv)
		if kindOf(x.X.Type()) == KStrList {
			fc.safety("bounds", g, smt.And(smt.Le(smt.IntLit(0), idx), smt.Lt(idx, smt.LLen(s))), where)
			return Val{Loc: &Loc{Kind: LListElem, Base: s, Idx: idx, Elem: t.Elem()}, GoT: x.Type()}
		}
		fc.safety("bounds", g, smt.And(smt.Le(smt.IntLit(0), idx), smt.Lt(idx, smt.SlLen(s))), where)
		if kindOf(t.Elem()) == KStruct {
			return fc.fromTerm(fc.elemRef(smt.SlArr(s), smt.Add(smt.SlOff(s), idx)), x.Type())
		}
		return Val{Loc: &Loc{Kind: LElem, Base: smt.SlArr(s), Off: smt.SlOff(s), Idx: idx, Elem: t.Elem()}, GoT: x.Type()}
	}
	fc.refuse("IndexAddr on %s", x.X.Type())
	return Val{}
}

func (fc *FnCtx) index(x *ssa.Index, st *State, g *smt.Term, where string) Val {
	idx := fc.term(fc.val(x.Index))
	s := fc.term(fc.val(x.X))
	if s.Sort == smt.SList {
		fc.safety("bounds", g, smt.And(smt.Le(smt.IntLit(0), idx), smt.Lt(idx, smt.LLen(s))), where)
		return Val{T: smt.LAt(s, idx), GoT: x.Type()}
	}
	fc.safety("bounds", g, smt.And(smt.Le(smt.IntLit(0), idx), smt.Lt(idx, smt.SLen(s))), where)
	t := smt.SAt(s, idx)
	if kindOf(x.Type()) != KInt {
		fc.abstr("index of non-integer array")
		return fc.freshVal("idx", x.Type())
	}
	fc.assume(smt.True, smt.Implies(smt.And(smt.Le(smt.IntLit(0), idx), smt.Lt(idx, smt.SLen(s))), inRange(t, x.Type())), "")
	return Val{T: t, GoT: x.Type()}
}

// seqOfSlice is the content of a slice value in state st.
func (fc *FnCtx) seqOfSlice(st *State, s *smt.Term) *smt.Term {
	backing := fc.readKey(st, "elems", smt.SlArr(s), smt.Seq)
	fc.S.Assert(smt.Implies(smt.Neq(smt.SlArr(s), smt.IntLit(0)), smt.Le(smt.Add(smt.SlOff(s), smt.SlCap(s)), smt.SLen(backing))), "a slice lies within its backing array")
	return smt.SSub(backing, smt.SlOff(s), smt.Add(smt.SlOff(s), smt.SlLen(s)))
}

func (fc *FnCtx) slice(x *ssa.Slice, st *State, g *smt.Term, where string) Val {
	xv := fc.val(x.X)
	opt := func(v ssa.Value, def *smt.Term) *smt.Term {
		if v == nil {
			return def
		}
		return fc.term(fc.val(v))
	}
	switch t := x.X.Type().Underlying().(type) {
	case *types.Basic: // string
		s := fc.term(xv)
		lo := opt(x.Low, smt.IntLit(0))
		hi := opt(x.High, smt.SLen(s))
		fc.safety("bounds", g, smt.And(smt.Le(smt.IntLit(0), lo), smt.Le(lo, hi), smt.Le(hi, smt.SLen(s))), where)
		r := fc.S.Define("sub", smt.SSub(s, lo, hi))
		return Val{T: r, GoT: x.Type()}
	case *types.Slice:
		s := fc.term(xv)
		if kindOf(x.X.Type()) == KStrList {
			lo := opt(x.Low, smt.IntLit(0))
			hi := opt(x.High, smt.LLen(s))
			fc.safety("bounds", g, smt.And(smt.Le(smt.IntLit(0), lo), smt.Le(lo, hi), smt.Le(hi, smt.LLen(s))), where)
			return Val{T: smt.LSub(s, lo, hi), GoT: x.Type()}
		}
		lo := opt(x.Low, smt.IntLit(0))
		hi := opt(x.High, smt.SlLen(s))
		mx := opt(x.Max, smt.SlCap(s))
		fc.safety("bounds", g, smt.And(smt.Le(smt.IntLit(0), lo), smt.Le(lo, hi), smt.Le(hi, mx), smt.Le(mx, smt.SlCap(s))), where)
		return Val{T: smt.MkSlice(smt.SlArr(s), smt.Add(smt.SlOff(s), lo), smt.Sub(hi, lo), smt.Sub(mx, lo)), GoT: x.Type()}
	case *types.Pointer: // *[N]T
		arr := t.Elem().Underlying().(*types.Array)
		n := smt.IntLit(arr.Len())
		lo := opt(x.Low, smt.IntLit(0))
		hi := opt(x.High, n)
		mx := opt(x.Max, n)
		fc.safety("bounds", g, smt.And(smt.Le(smt.IntLit(0), lo), smt.Le(lo, hi), smt.Le(hi, mx), smt.Le(mx, n)), where)
		ref := fc.term(xv)
		fc.nilCheck(ref, g, where)
		if kindOf(t.Elem()) == KStrArr {
			// []string is a value: the slice is a copy of the array's current content
			lst := fc.readKey(st, "elemsS", ref, smt.SList)
			return Val{T: fc.S.Define("strs", smt.LSub(lst, lo, hi)), GoT: x.Type()}
		}
		return Val{T: smt.MkSlice(ref, lo, smt.Sub(hi, lo), smt.Sub(mx, lo)), GoT: x.Type()}
	}
	fc.refuse("Slice of %s", x.X.Type())
	return Val{}
}

func (fc *FnCtx) convert(x *ssa.Convert, st *State, g *smt.Term, where string) Val {
	v := fc.val(x.X)
	from, to := x.X.Type(), x.Type()
	kf, kt := kindOf(from), kindOf(to)
	switch {
	case kf == KInt && kt == KInt:
		t := fc.term(v)
		lo, hi, _ := intRange(to)
		flo, fhi, _ := intRange(from)
		if !(cmpDec(flo, lo) >= 0 && cmpDec(fhi, hi) <= 0) {
			// narrowing / sign change: exact Go semantics (wrap) plus an information-loss obligation
			bits, signed := bitSize(to)
			fc.safety("truncation", g, inRange(t, to), where)
			m := smt.Mod(t, smt.BigLit(pow2(bits)))
			if signed {
				half := smt.BigLit(hi)
				m = smt.Ite(smt.Gt(m, half), smt.Sub(m, smt.BigLit(pow2(bits))), m)
			}
			t = fc.S.Define("conv", m)
		}
		return Val{T: t, GoT: to}
	case kf == KSlice && kt == KStr: // string(bytes)
		s := fc.term(v)
		r := fc.S.Define("str", fc.seqOfSlice(st, s))
		fc.byteFacts(r)
		return Val{T: r, GoT: to}
	case kf == KStr && kt == KSlice: // []byte(string)
		s := fc.term(v)
		if sl, ok := to.Underlying().(*types.Slice); ok && !isByte(sl.Elem()) {
			fc.abstr("[]rune conversion")
			return fc.freshVal("runes", to)
		}
		arr := fc.newRef()
		fc.writeKey(st, "elems", arr, s)
		return Val{T: smt.MkSlice(arr, smt.IntLit(0), smt.SLen(s), smt.SLen(s)), GoT: to}
	case kf == KInt && kt == KStr: // string(rune/byte)
		t := fc.term(v)
		if isByte(from) {
			return Val{T: smt.SUnit(t), GoT: to}
		}
		// string(rune): single byte when < 0x80, otherwise unconstrained UTF-8
		r := fc.S.Fresh("runestr", smt.Seq)
		fc.assume(smt.True, smt.Implies(smt.And(smt.Le(smt.IntLit(0), t), smt.Lt(t, smt.IntLit(128))), smt.Eq(r, smt.SUnit(t))), "string(rune) for ASCII")
		fc.assume(smt.True, smt.And(smt.Ge(smt.SLen(r), smt.IntLit(1)), smt.Le(smt.SLen(r), smt.IntLit(4))), "")
		fc.byteFacts(r)
		return Val{T: r, GoT: to}
	case kf == kt && v.T != nil:
		return fc.retype(v, to)
	case kf == kt:
		v.GoT = to
		return v
	}
	fc.abstr(fmt.Sprintf("conversion %s -> %s", from, to))
	return fc.freshVal("conv", to)
}

func (fc *FnCtx) retype(v Val, to types.Type) Val {
	nv := fc.fromTerm(v.T, to)
	nv.Clo = v.Clo
	return nv
}

// cmpDec compares decimal integer strings.
func cmpDec(a, b string) int {
	neg := func(s string) (bool, string) {
		if len(s) > 0 && s[0] == '-' {
			return true, s[1:]
		}
		return false, s
	}
	na, aa := neg(a)
	nb, bb := neg(b)
	switch {
	case na && !nb:
		return -1
	case !na && nb:
		return 1
	}
	c := 0
	if len(aa) != len(bb) {
		if len(aa) < len(bb) {
			c = -1
		} else {
			c = 1
		}
	} else if aa < bb {
		c = -1
	} else if aa > bb {
		c = 1
	}
	if na {
		return -c
	}
	return c
}

// ---- interfaces ---------------------------------------------------------------

func (fc *FnCtx) typeID(t types.Type) *smt.Term {
	return fc.typeIDByName(fc.P.TypeStr(t, nil))
}

// implementsFn declares implements!I and states, for every concrete type id
// known so far, whether it implements I (decided by go/types).
func (fc *FnCtx) implementsFn(it types.Type) string {
	iname := fc.P.TypeStr(it, nil)
	fn := "implements!" + smt.Ident(iname)
	if !fc.S.Declared(fn) {
		fc.S.DeclareFun(fn, []smt.Sort{smt.Int}, smt.Bool)
		fc.ifaces[fn] = it
		for idn, ct := range fc.typeObjs {
			fc.implFact(fn, it, idn, ct)
		}
	}
	return fn
}

func (fc *FnCtx) implFact(fn string, it types.Type, idn string, ct types.Type) {
	iface, ok := it.Underlying().(*types.Interface)
	if !ok || ct == nil {
		return
	}
	if _, isIface := ct.Underlying().(*types.Interface); isIface {
		return
	}
	app := smt.App(fn, smt.Bool, smt.Const(idn, smt.Int))
	if types.Implements(ct, iface) {
		fc.S.Assert(app, "go/types: implements")
	} else {
		fc.S.Assert(smt.Not(app), "go/types: does not implement")
	}
}

func (fc *FnCtx) typeIDByName(tname string) *smt.Term {
	name := "ty!" + smt.Ident(tname)
	if !fc.S.Declared(name) {
		defer func() {
			ct := fc.P.goTypeByName(tname)
			fc.typeObjs[name] = ct
			for fn, it := range fc.ifaces {
				fc.implFact(fn, it, name, ct)
			}
		}()
		fc.S.DeclareFun(name, nil, smt.Int)
		// distinctness: each type id is pinned to a hash-free counter via an injective naming function
		fc.typeIDs = append(fc.typeIDs, name)
		for _, other := range fc.typeIDs[:len(fc.typeIDs)-1] {
			fc.S.Assert(smt.Neq(smt.Const(name, smt.Int), smt.Const(other, smt.Int)), "")
		}
	}
	return smt.Const(name, smt.Int)
}

func (fc *FnCtx) dtype(ref *smt.Term) *smt.Term {
	fc.S.DeclareFun("dtype", []smt.Sort{smt.Int}, smt.Int)
	return smt.App("dtype", smt.Int, ref)
}

func (fc *FnCtx) makeInterface(x *ssa.MakeInterface, st *State, g *smt.Term, where string) Val {
	v := fc.val(x.X)
	xt := x.X.Type()
	switch kindOf(xt) {
	case KRef, KPtr:
		if _, isPtr := xt.Underlying().(*types.Pointer); isPtr && !v.Conv && !fc.viewPointer(xt) {
			ref := fc.term(v)
			// a nil pointer in an interface is a non-nil interface: the model identifies
			// the interface with the pointer, so this must not happen.
			if isErrorIface(x.Type()) {
				fc.safety("typed-nil", g, smt.Neq(ref, smt.IntLit(0)), where)
			} else {
				// a nil pointer boxed in a non-error interface (fmt arguments, any): the box is
				// non-nil in Go; the model keeps the pointer value, which only matters for == nil
				// tests on the interface, absent for these uses
				fc.abstr("nil-able pointer boxed in a non-error interface")
			}
			fc.assume(g, smt.Eq(fc.dtype(ref), fc.typeID(xt)), "")
			r := Val{T: ref, GoT: x.Type(), Clo: v.Clo}
			fc.boxes[ref.String()] = boxInfo{v, xt}
			return r
		}
		// map/func/chan in an interface: boxed
	}
	// boxed value: a fresh non-nil reference with a known dynamic type
	ref := fc.S.Fresh("box", smt.Int)
	fc.S.Assert(smt.Gt(ref, smt.IntLit(0)), "")
	fc.S.Assert(smt.Eq(fc.dtype(ref), fc.typeID(xt)), "")
	if _, isPtr := xt.Underlying().(*types.Pointer); isPtr && v.T != nil && kindOf(xt) == KRef {
		// a converted / view pointer: if the object was allocated with exactly this
		// dynamic type the interface value is the object itself (as for unconverted
		// pointers); otherwise it is the separate box
		obj := v.T
		ref = fc.S.Name("cbox", smt.Ite(smt.And(smt.Neq(obj, smt.IntLit(0)), smt.Eq(fc.dtype(obj), fc.typeID(xt))), obj, ref))
	}
	if v.T != nil {
		key := "box:" + fc.P.TypeStr(xt, nil)
		fn := "unbox!" + smt.Ident(key)
		fc.S.DeclareFun(fn, []smt.Sort{smt.Int}, v.T.Sort)
		fc.S.Assert(smt.Eq(smt.App(fn, v.T.Sort, ref), v.T), "")
	}
	fc.boxes[ref.String()] = boxInfo{v, xt}
	return Val{T: ref, GoT: x.Type()}
}

func (fc *FnCtx) typeAssert(x *ssa.TypeAssert, st *State, g *smt.Term, where string) Val {
	v := fc.val(x.X)
	ref := fc.term(v)
	at := x.AssertedType
	var ok *smt.Term
	var res Val
	if ai, isIface := at.Underlying().(*types.Interface); isIface {
		fn := fc.implementsFn(at)
		ok = smt.And(smt.Neq(ref, smt.IntLit(0)), smt.App(fn, smt.Bool, fc.dtype(ref)))
		if si, isI := x.X.Type().Underlying().(*types.Interface); isI && types.Implements(x.X.Type(), ai) && si != nil {
			// the static type of the operand already guarantees the asserted interface:
			// only a nil value can make the assertion fail
			ok = smt.Neq(ref, smt.IntLit(0))
		}
		res = Val{T: ref, GoT: at}
	} else {
		ok = smt.And(smt.Neq(ref, smt.IntLit(0)), smt.Eq(fc.dtype(ref), fc.typeID(at)))
		switch kindOf(at) {
		case KRef, KPtr:
			if _, isPtr := at.Underlying().(*types.Pointer); isPtr {
				res = fc.fromTerm(smt.Ite(ok, ref, smt.IntLit(0)), at)
				break
			}
			fallthrough
		default:
			if kindOf(at) == KStruct || kindOf(at) == KTuple {
				res = fc.freshVal("unboxed", at)
				break
			}
			key := "box:" + fc.P.TypeStr(at, nil)
			fn := "unbox!" + smt.Ident(key)
			srt := sortOfKind(kindOf(at))
			fc.S.DeclareFun(fn, []smt.Sort{smt.Int}, srt)
			res = fc.fromTerm(smt.App(fn, srt, ref), at)
			res = fc.orZero(ok, res, at)
		}
	}
	if x.CommaOk {
		okv := Val{T: fc.S.Define("tok", ok), GoT: types.Typ[types.Bool]}
		return Val{Fs: []Val{res, okv}, GoT: x.Type()}
	}
	fc.safety("type-assert", g, ok, where)
	return res
}

func (fc *FnCtx) orZero(ok *smt.Term, v Val, ty types.Type) Val {
	if v.T == nil {
		return v
	}
	z := fc.zeroVal(ty)
	if z.T == nil {
		return v
	}
	return fc.fromTerm(smt.Ite(ok, v.T, z.T), ty)
}

// ---- return / panic ----------------------------------------------------------------

func (fc *FnCtx) ret(x *ssa.Return, st *State, g *smt.Term, where string) {
	if fc.C == nil {
		return
	}
	if !fc.dry && fc.inline == nil {
		fc.Obligs = append(fc.Obligs, Oblig{Fn: fc.Name, Name: fc.Name + "/reachable-return@" + where, Kind: "reachability", Guard: g, Goal: smt.False, Pos: fc.S.Len(), Where: where, Vacuity: true})
	}
	vars := map[string]Val{}
	for k, v := range fc.params {
		vars[k] = v
	}
	for i, r := range x.Results {
		v := fc.val(r)
		if i < len(fc.C.Results) {
			vars[fc.C.Results[i]] = v
		}
	}
	// named locals of the function are visible in ensures clauses (as of the return)
	fc.retLocal = func(n string) (Val, bool) {
		if _, isParamOrResult := vars[n]; isParamOrResult {
			return Val{}, false // the contract's own names win
		}
		return fc.localVar(n, x.Block(), x, st)
	}
	fc.checkEnsures(vars, st, g, where)
	fc.retLocal = nil
}

func (fc *FnCtx) checkEnsures(vars map[string]Val, st *State, g *smt.Term, where string) {
	for _, d := range fc.C.Defines {
		ec := &evalCtx{fc: fc, vars: vars, cur: st, old: fc.entryView(), atReturn: true}
		fc.assume(g, ec.boolean(d.E), "definition at construction: "+d.Text)
		fc.Used["definition at construction in "+fc.Name+": "+d.Text+" (the object is fresh and its fields are never written afterwards: constfield scan)"] = true
	}
	for _, e := range fc.C.Ensures {
		ec := &evalCtx{fc: fc, vars: vars, cur: st, old: fc.entryView(), atReturn: true, local: fc.retLocal}
		goal := ec.booleanOrUnprovable(e.E)
		tags := e.Tags
		fc.oblige("ensures", e.Label, tags, g, goal, where, e.Text)
	}
	for _, in := range fc.C.Implements {
		ic := fc.P.Contract[in]
		if ic == nil {
			fc.refuse("implements: unknown interface contract %s", in)
		}
		// positional renaming: interface contract parameters/results -> this function's values
		ivars := map[string]Val{}
		for i, pn := range ic.Params {
			if i < len(fc.Fn.Params) {
				ivars[pn] = fc.vals[fc.Fn.Params[i]]
			}
		}
		for i, rn := range ic.Results {
			if i < len(fc.C.Results) {
				if v, ok := vars[fc.C.Results[i]]; ok {
					ivars[rn] = v
				}
			}
		}
		for _, e := range ic.Ensures {
			ec := &evalCtx{fc: fc, vars: ivars, cur: st, old: fc.entry, atReturn: true}
			fc.oblige("implements", in+"."+e.Label, e.Tags, g, ec.boolean(e.E), where, e.Text)
		}
	}
	for _, en := range fc.C.Establishes {
		gi := fc.P.GlobalInv(en)
		if gi == nil {
			fc.refuse("establishes: unknown global invariant %s", en)
		}
		ec := &evalCtx{fc: fc, vars: map[string]Val{}, cur: st, old: fc.entry}
		fc.oblige("establishes", en, nil, g, ec.boolean(gi.E), where, gi.Text)
	}
	fc.frameCheck(vars, st, g, where)
}

// entryView is the entry state (heap symbols as of function entry).
func (fc *FnCtx) entryView() *State { return fc.entry }

func (fc *FnCtx) explicitPanic(x *ssa.Panic, st *State, g *smt.Term, where string) {
	if fc.C != nil && fc.C.Panics {
		return
	}
	fc.safety("panic", g, smt.False, where)
}

func isErrorIface(t types.Type) bool {
	it, ok := t.Underlying().(*types.Interface)
	if !ok {
		return false
	}
	for i := 0; i < it.NumMethods(); i++ {
		if it.Method(i).Name() == "Error" {
			return true
		}
	}
	return false
}

// viewPointer: a pointer to a named struct type that is a view (type B A) of
// another named type's struct. Objects carry the dynamic type they were
// allocated with, so such a pointer in an interface is boxed separately and
// never claims the object's own dynamic type (whatever path the value took:
// conversions may be hidden behind phis).
func (fc *FnCtx) viewPointer(t types.Type) bool {
	p, ok := t.Underlying().(*types.Pointer)
	if !ok {
		return false
	}
	st, ok := p.Elem().Underlying().(*types.Struct)
	if !ok {
		return false
	}
	cn, ok := fc.P.canonStruct[st]
	return ok && cn != fc.P.TypeStr(p.Elem(), nil)
}

// closureRequires: the part of a closure's precondition that speaks only of
// its captured variables is an obligation of the function that creates the
// closure (nobody else can establish it); the closure's callers owe the part
// that mentions its parameters. Conjuncts that mix both stay assumptions of the
// closure (listed in the evidence).
func (fc *FnCtx) closureRequires(x *ssa.MakeClosure, fn *ssa.Function, c *Closure, st *State, g *smt.Term, where string) {
	cs := fc.P.Contract[fc.P.FuncName(fn)]
	if cs == nil || cs.Trusted || len(cs.Requires) == 0 {
		return
	}
	free := map[string]Val{}
	for i, fv := range fn.FreeVars {
		if i < len(c.Bindings) {
			free[fv.Name()] = c.Bindings[i]
		}
	}
	params := map[string]bool{}
	for _, n := range cs.Params {
		params[n] = true
	}
	for _, p := range fn.Params {
		params[p.Name()] = true
	}
	var conj func(e spec.Expr, out *[]spec.Expr)
	conj = func(e spec.Expr, out *[]spec.Expr) {
		if b, ok := e.(*spec.Binary); ok && b.Op == "&&" {
			conj(b.X, out)
			conj(b.Y, out)
			return
		}
		*out = append(*out, e)
	}
	for _, r := range cs.Requires {
		var parts []spec.Expr
		conj(r.E, &parts)
		for _, e := range parts {
			usesFree, usesParam := false, false
			walk(e, func(y spec.Expr) {
				if id, ok := y.(*spec.Ident); ok {
					if params[id.Name] {
						usesParam = true
					} else if _, ok := free[id.Name]; ok {
						usesFree = true
					}
				}
			})
			if !usesFree || usesParam {
				continue
			}
			ec := &evalCtx{fc: fc, vars: free, cur: st, old: st}
			fc.oblige("closure-requires", fc.P.FuncName(fn), cs.Tags, g, ec.booleanOrUnprovable(e), where, e.String())
		}
	}
}
