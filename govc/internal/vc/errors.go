package vc

import (
	"go/types"

	"govc/internal/smt"
)

// Error model. IsErr(e, t) / AsErr(e) are global relations over error
// references: the unwrap structure of an error value is fixed when it is
// constructed (Error.err is written at construction only; the stores that
// violate this taint the object, see taint()).
//
//	IsErr(e, t)  errors.Is(e, t)
//	AsErr(e)     the first *Error in e's chain (0 if none) — errors.As(e, **Error)

func (fc *FnCtx) errDecls() {
	if fc.S.Declared("IsErr") {
		return
	}
	fc.S.DeclareFun("IsErr", []smt.Sort{smt.Int, smt.Int}, smt.Bool)
	fc.S.DeclareFun("AsErr", []smt.Sort{smt.Int}, smt.Int)
	e := smt.Const("e!x", smt.Int)
	t := smt.Const("t!x", smt.Int)
	is := smt.App("IsErr", smt.Bool, e, t)
	as := smt.App("AsErr", smt.Int, e)
	tyErr := fc.typeIDByName("*Error")
	fc.S.Assert(smt.Forall([]*smt.Term{e, t}, smt.Implies(is, smt.Neq(e, smt.IntLit(0))), []*smt.Term{is}), "errors.Is(nil, t) is false")
	fc.S.Assert(smt.Forall([]*smt.Term{e}, smt.Implies(smt.Neq(e, smt.IntLit(0)), smt.App("IsErr", smt.Bool, e, e)), []*smt.Term{smt.App("IsErr", smt.Bool, e, e)}), "errors.Is(e, e)")
	fc.S.Assert(smt.Eq(smt.App("AsErr", smt.Int, smt.IntLit(0)), smt.IntLit(0)), "errors.As(nil) fails")
	fc.S.Assert(smt.Forall([]*smt.Term{e}, smt.And(
		smt.Implies(smt.And(smt.Neq(e, smt.IntLit(0)), smt.Eq(fc.dtype(e), tyErr)), smt.Eq(as, e)),
		smt.Implies(smt.Neq(as, smt.IntLit(0)), smt.And(smt.Eq(fc.dtype(as), tyErr), smt.Neq(e, smt.IntLit(0)))),
	), []*smt.Term{as}), "errors.As finds a *Error: e itself if it is one")
	fc.S.Assert(smt.Forall([]*smt.Term{e}, smt.Implies(smt.Ge(e, smt.IntLit(0)), smt.Ge(as, smt.IntLit(0))), []*smt.Term{as}), "an error that existed at entry wraps only objects that existed at entry")
	// sentinels are plain errors: they match only themselves and wrap nothing
	for _, name := range smt.SortedKeys(fc.P.Sentinel) {
		if fc.P.SentinelKind[name] != "plain" {
			continue
		}
		s := fc.sentinelTerm(name, fc.P.Sentinel[name])
		st := smt.App("IsErr", smt.Bool, s, t)
		fc.S.Assert(smt.Forall([]*smt.Term{t}, smt.Eq(st, smt.Eq(t, s)), []*smt.Term{st}), "sentinel "+name+" wraps nothing")
		fc.S.Assert(smt.Eq(smt.App("AsErr", smt.Int, s), smt.IntLit(0)), "")
		fc.S.Assert(smt.Neq(fc.dtype(s), tyErr), "")
	}
}

func (fc *FnCtx) isErr(e, t *smt.Term) *smt.Term {
	fc.errDecls()
	return smt.App("IsErr", smt.Bool, e, t)
}

func (fc *FnCtx) asErr(e *smt.Term) *smt.Term {
	fc.errDecls()
	return smt.App("AsErr", smt.Int, e)
}

func (fc *FnCtx) errorPtrType() types.Type {
	obj := fc.P.Root.Pkg.Scope().Lookup("Error")
	if obj == nil {
		return nil
	}
	return types.NewPointer(obj.Type())
}

// errStore is called for every store to the field Error.err of object x.
func (fc *FnCtx) errStore(x, v *smt.Term, where string) {
	fc.errDecls()
	if k, ok := freshRefKey(x); ok && !fc.errInit[k] && !fc.escaped[k] {
		// construction of a fresh *Error: its unwrap structure is now defined
		fc.errInit[k] = true
		t := smt.Const("t!x", smt.Int)
		is := smt.App("IsErr", smt.Bool, x, t)
		fc.S.Assert(smt.Forall([]*smt.Term{t}, smt.Eq(is, smt.Or(smt.Eq(t, x), smt.App("IsErr", smt.Bool, v, t))), []*smt.Term{is}), "errors.Is through (*Error).Unwrap, "+where)
		return
	}
	fc.tainted[x.String()] = true
	fc.Notes = append(fc.Notes, "store to Error.err of an existing object at "+where+": Is/As facts about that object are not used afterwards (checked syntactically)")
}

func (fc *FnCtx) checkTaint(e *smt.Term) {
	if fc.tainted[e.String()] {
		fc.refuse("Is/As of an error whose err field was overwritten after construction")
	}
}
