package vc

import (
	"fmt"

	"golang.org/x/tools/go/ssa"

	"govc/internal/smt"
)

// Panic model (C19). A call to a callee whose contract says `panics` has two
// outcomes: it returns, or it panics with an arbitrary value pv. On the panic
// edge the function's deferred calls run in reverse order with recover()
// returning pv; deferred closures of the function itself are inlined (the one
// place a body is inlined). If a deferred call recovered and did not panic
// again, control continues in the function's recover block (named results);
// otherwise the function exits panicking and its `panicensures` are checked.

type panicExit struct {
	guard *smt.Term
	val   *smt.Term
}

type inlineResult struct {
	normal *smt.Term // guard of normal return
	panics []panicExit
}

// unwind runs the deferred calls for a panic with value pv raised under guard g.
func (fc *FnCtx) unwind(st *State, g, pv *smt.Term, where string) {
	recovered := smt.False
	stillPanicking := g
	curVal := pv
	var exits []panicExit
	for i := len(fc.defers) - 1; i >= 0; i-- {
		d := fc.defers[i]
		dg := smt.And(stillPanicking, d.guard)
		if dg == smt.False {
			continue
		}
		fn := fc.deferTarget(d)
		if fn == nil || fn.Parent() != fc.Fn {
			// a deferred call we do not inline: it runs (contract or havoc) and cannot recover
			save := fc.curReach
			fc.curReach = dg
			fc.deferredCall(d, &d.instr.Call, st, dg, fc.pos(d.instr.Pos()))
			fc.curReach = save
			continue
		}
		before := st.clone()
		res := fc.inlineClosure(fn, d.fnVal, st, dg, curVal)
		// merge the state: the deferred call ran only under dg
		for _, k := range smt.SortedKeys(st.H) {
			a := st.H[k]
			b, ok := before.H[k]
			if !ok {
				b = fc.getHeap(before, k, "")
			}
			if a != b {
				st.H[k] = fc.S.Name("Hp_"+k, smt.Ite(dg, a, b))
			}
		}
		// after this deferred call: recovered if it called recover() and returned normally
		rec := smt.And(res.normal, fc.recoverCalled)
		recovered = smt.Or(recovered, rec)
		exits = append(exits, res.panics...)
		stillPanicking = smt.And(stillPanicking, smt.Not(rec), smt.Not(fc.orGuards(res.panics)))
	}
	// exits: (1) recovered -> recover block; (2) re-panicked in a deferred call; (3) never recovered
	if recovered != smt.False {
		rg := fc.S.Define("recovered", smt.And(g, recovered))
		fc.runRecoverBlock(st, rg, where)
	}
	for _, e := range exits {
		fc.checkPanicEnsures(st, e.guard, e.val, where)
	}
	if stillPanicking != smt.False {
		fc.checkPanicEnsures(st, stillPanicking, pv, where)
	}
}

func (fc *FnCtx) orGuards(es []panicExit) *smt.Term {
	r := smt.False
	for _, e := range es {
		r = smt.Or(r, e.guard)
	}
	return r
}

func (fc *FnCtx) deferTarget(d deferRec) *ssa.Function {
	c := &d.instr.Call
	if c.IsInvoke() {
		return nil
	}
	if f := c.StaticCallee(); f != nil {
		return f
	}
	if d.fnVal.Clo != nil {
		return d.fnVal.Clo.Fn
	}
	return nil
}

// runRecoverBlock executes the function's recover block (or returns the zero
// results if there is none) under guard g.
func (fc *FnCtx) runRecoverBlock(st *State, g *smt.Term, where string) {
	rb := fc.Fn.Recover
	if rb == nil {
		if fc.C != nil {
			vars := map[string]Val{}
			for k, v := range fc.params {
				vars[k] = v
			}
			res := fc.Fn.Signature.Results()
			for i := 0; i < res.Len() && i < len(fc.C.Results); i++ {
				vars[fc.C.Results[i]] = fc.zeroVal(res.At(i).Type())
			}
			fc.checkEnsures(vars, st, g, where+".recovered")
		}
		return
	}
	saveReach, saveBlock := fc.curReach, fc.curBlock
	fc.curReach, fc.curBlock = g, rb
	fc.reach[rb] = g
	for _, in := range rb.Instrs {
		fc.curInstr = in
		if _, isIf := in.(*ssa.If); isIf {
			fc.refuse("branching recover block")
		}
		if _, isJ := in.(*ssa.Jump); isJ {
			fc.refuse("recover block that jumps")
		}
		fc.instr(in, st)
	}
	fc.curReach, fc.curBlock = saveReach, saveBlock
}

// checkPanicEnsures: obligations of an exit by panic.
func (fc *FnCtx) checkPanicEnsures(st *State, g, val *smt.Term, where string) {
	if fc.C == nil {
		return
	}
	if len(fc.C.PanicEnsures) == 0 && !fc.C.Panics {
		fc.safety("panic", g, smt.False, where)
		return
	}
	vars := map[string]Val{}
	for k, v := range fc.params {
		vars[k] = v
	}
	vars["panicvalue"] = Val{T: val}
	for _, e := range fc.C.PanicEnsures {
		ec := &evalCtx{fc: fc, vars: vars, cur: st, old: fc.entry, atReturn: true}
		fc.oblige("panicensures", e.Label, e.Tags, g, ec.boolean(e.E), where, e.Text)
	}
}

// inlineClosure symbolically executes a deferred closure of this function.
func (fc *FnCtx) inlineClosure(fn *ssa.Function, fv Val, st *State, g, recoverVal *smt.Term) inlineResult {
	if fv.Clo == nil || len(fv.Clo.Bindings) != len(fn.FreeVars) {
		fc.refuse("deferred closure with unknown bindings")
	}
	child := *fc
	child.Fn = fn
	child.Name = fc.Name + "$deferred"
	child.C = nil
	child.vals = map[ssa.Value]Val{}
	child.reach = map[*ssa.BasicBlock]*smt.Term{}
	child.out = map[*ssa.BasicBlock]*State{}
	child.edge = map[[2]int]*smt.Term{}
	child.blockBase = map[*ssa.BasicBlock]*smt.Term{}
	child.defers = nil
	child.inline = &inlineCtx{normal: smt.False}
	child.parentCtx = fc
	for i, v := range fn.FreeVars {
		child.vals[v] = fv.Clo.Bindings[i]
	}
	child.findLoops()
	if len(child.loopList) > 0 {
		fc.refuse("loop in a deferred closure")
	}
	child.callOrdinals()
	rv := Val{T: recoverVal}
	if recoverVal == nil {
		rv = Val{T: smt.IntLit(0)}
	}
	child.recoverVal = &rv
	child.recoverCalled = smt.False
	// run the blocks with entry guard g on the shared state
	blocks := child.topo()
	entrySt := st
	for _, b := range blocks {
		child.inlineBlock(b, entrySt, g)
	}
	// merge the return states into st
	var rets []*State
	var guards []*smt.Term
	for _, r := range child.inline.returns {
		rets = append(rets, r.st)
		guards = append(guards, r.guard)
	}
	if len(rets) == 1 {
		st.H = rets[0].H
	} else if len(rets) > 1 {
		keys := map[string]bool{}
		for _, r := range rets {
			for k := range r.H {
				keys[k] = true
			}
		}
		for _, k := range smt.SortedKeys(keys) {
			m := fc.getHeap(rets[len(rets)-1], k, "")
			for i := len(rets) - 2; i >= 0; i-- {
				m = smt.Ite(guards[i], fc.getHeap(rets[i], k, ""), m)
			}
			st.H[k] = fc.S.Name("Hi_"+k, m)
		}
	}
	// copy back what the child accumulated
	fc.Obligs = child.Obligs
	fc.Notes = child.Notes
	fc.nextRef = child.nextRef
	fc.freshRefs = child.freshRefs
	fc.recoverCalled = child.recoverCalled
	return inlineResult{normal: child.inline.normal, panics: child.inline.panics}
}

type inlineCtx struct {
	normal  *smt.Term
	returns []struct {
		guard *smt.Term
		st    *State
	}
	panics []panicExit
}

// inlineBlock is block() for an inlined closure: entry reach is the given guard.
func (fc *FnCtx) inlineBlock(b *ssa.BasicBlock, st0 *State, g *smt.Term) {
	fc.curBlock = b
	var st *State
	if b.Index == 0 {
		fc.reach[b] = g
		st = st0.clone()
	} else {
		var preds []*ssa.BasicBlock
		var guards []*smt.Term
		for _, p := range b.Preds {
			if fc.reach[p] == nil || fc.edgeGuard(p, b) == nil {
				continue
			}
			preds = append(preds, p)
			guards = append(guards, fc.edgeGuard(p, b))
		}
		if len(preds) == 0 {
			return
		}
		fc.reach[b] = fc.S.Define(fmt.Sprintf("ri!%d", b.Index), smt.Or(guards...))
		st = fc.mergeStates(preds, guards, b)
		for _, in := range b.Instrs {
			phi, ok := in.(*ssa.Phi)
			if !ok {
				break
			}
			var vs []Val
			for _, p := range preds {
				vs = append(vs, fc.phiEdgeVal(phi, p, b))
			}
			fc.vals[phi] = fc.mergeVals(vs, guards, "phi_"+phi.Name())
		}
	}
	fc.curReach = fc.reach[b]
	for _, in := range b.Instrs {
		if _, ok := in.(*ssa.Phi); ok {
			continue
		}
		fc.curInstr = in
		switch x := in.(type) {
		case *ssa.Return:
			fc.inline.normal = smt.Or(fc.inline.normal, fc.curReach)
			fc.inline.returns = append(fc.inline.returns, struct {
				guard *smt.Term
				st    *State
			}{fc.curReach, st})
		case *ssa.Panic:
			fc.inline.panics = append(fc.inline.panics, panicExit{guard: fc.curReach, val: fc.term(fc.val(x.X))})
			fc.inline.returns = append(fc.inline.returns, struct {
				guard *smt.Term
				st    *State
			}{fc.curReach, st})
		default:
			fc.instr(in, st)
		}
	}
	fc.out[b] = st
}
