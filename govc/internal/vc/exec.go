package vc

import (
	"fmt"
	"go/token"
	"go/types"
	"sort"
	"strings"

	"golang.org/x/tools/go/ssa"

	"govc/internal/smt"
	"govc/internal/spec"
)

// Oblig is one proof obligation: under Guard (reachability of the program
// point) and all script items before Pos, Goal must hold.
type Oblig struct {
	Fn      string
	Name    string
	Kind    string
	Label   string
	Tags    []string
	Guard   *smt.Term
	Goal    *smt.Term
	Pos     int
	Where   string
	Text    string      // source text of the clause, if any
	Vacuity bool        // canary: expected NOT to be provable
	Hints   []*smt.Term // ground instances of hint functions (defined as true) occurring in the goal
}

type loopInfo struct {
	preState    *State // the state just before the loop (for before(...) in invariants)
	header      *ssa.BasicBlock
	ord         int
	blocks      map[*ssa.BasicBlock]bool
	ls          *spec.LoopSpec
	variant     *smt.Term
	ghost       map[string]Val // header values of ghost variables
	hdrState    *State
	written     map[string]bool // heap keys written inside (from the dry run)
	preLoop     *State
	wm          *smt.Term
	writtenRefs map[string]map[string]*smt.Term // keys written only at literal references
}

type deferRec struct {
	instr *ssa.Defer
	guard *smt.Term
	args  []Val
	fnVal Val
}

// FnCtx is the verification context of one function.
type FnCtx struct {
	poisoned map[ssa.Value]bool // []string registers unusable after an in-place sort of another one
	poisonAt  *ssa.BasicBlock          // the block of that sort.Strings call
	poisonSuc map[*ssa.BasicBlock]bool // the blocks reachable from it
	P    *Program
	Fn   *ssa.Function
	Name string
	Pkg  *types.Package
	C    *spec.FuncSpec
	S    *smt.Script

	vals         map[ssa.Value]Val
	resliced     map[ssa.Value]int // see reslicedOrigin
	reslicedDone map[*ssa.Function]bool
	reach        map[*ssa.BasicBlock]*smt.Term
	out          map[*ssa.BasicBlock]*State
	edge         map[[2]int]*smt.Term
	entry        *State
	params       map[string]Val
	results      []Val

	Obligs []Oblig
	Abstr  map[string]int
	Used   map[string]bool // trusted contracts / assumptions used
	Notes  []string

	nextRef          int
	freshRefs        []*smt.Term
	refBase          *smt.Term
	blockBase        map[*ssa.BasicBlock]*smt.Term
	strLits          map[string]*smt.Term
	loops            map[*ssa.BasicBlock]*loopInfo
	loopList         []*loopInfo
	defers           []deferRec
	callOrd          map[string]int
	curBlock         *ssa.BasicBlock
	curReach         *smt.Term
	dry              bool
	written          map[*ssa.BasicBlock]map[string]bool
	writtenRefs      map[*ssa.BasicBlock]map[string]map[string]*smt.Term
	heapSorts        map[string]smt.Sort
	curInstr         ssa.Instruction
	panicked         *smt.Term
	specDecl         map[string]bool
	inProgressSpecFn map[string]bool
	ghostCounter     int
	recoverVal       *Val
	typeIDs          []string
	boxes            map[string]boxInfo
	errInit          map[string]bool
	ctVals           map[string]Val
	canonDone        map[string]bool
	condFresh        map[string]*smt.Term
	preSorts         map[string]smt.Sort
	inline           *inlineCtx
	parentCtx        *FnCtx
	recoverCalled    *smt.Term
	callPanicked     map[string]*smt.Term
	callPanicVal     map[string]*smt.Term
	staticOrd        map[ssa.Instruction]int
	staticName       map[ssa.Instruction]string
	typeInvUsed      map[string]bool
	refKeys          map[string]bool
	byteDone         map[string]bool
	lastElemsSlice   *smt.Term
	ifaces           map[string]types.Type
	typeObjs         map[string]types.Type
	unboundLoops     []string
	constFieldsUsed  map[string]bool
	callRes          map[string]Val
	callGuard        map[string]*smt.Term
	splitCases       []*smt.Term
	inAlloc          bool
	escaped          map[string]bool
	tainted          map[string]bool
	usedCallAssert   map[string]bool
	subFns           []string                 // embedded-struct reference functions declared so far
	wmTerms          []*smt.Term              // loop watermarks declared so far
	paramObj         map[string]types.Object  // contract parameter name -> the parameter's object
	wmDeclared       map[string]bool          // loop watermarks declared so far in this run
	devirtUsed       map[string]string        // function-valued fields resolved through a fieldis declaration
	retLocal         func(string) (Val, bool) // named locals at the return being checked
	missingCall      string                   // set when a clause asks for the result of a call site that does not exist
	iters            map[*ssa.Range]*iterInfo
	specLoop         *loopInfo // the loop whose contract is being evaluated (for iterated())
	axiomDone        map[string]bool
}

type refusal struct{ msg string }

func (fc *FnCtx) refuse(format string, args ...any) {
	panic(refusal{fmt.Sprintf(format, args...)})
}

func (fc *FnCtx) abstr(what string) {
	fc.Abstr[what]++
}

func (fc *FnCtx) pos(p token.Pos) string {
	if !p.IsValid() {
		if fc.curInstr != nil && fc.curInstr.Pos().IsValid() {
			p = fc.curInstr.Pos()
		} else {
			return fc.Name
		}
	}
	ps := fc.P.Prog.Fset.Position(p)
	f := ps.Filename
	if strings.HasPrefix(f, fc.P.Repo+"/") {
		f = f[len(fc.P.Repo)+1:]
	}
	return fmt.Sprintf("%s:%d", f, ps.Line)
}

// NewFnCtx prepares verification of fn under contract c.
func NewFnCtx(p *Program, name string, fn *ssa.Function, c *spec.FuncSpec) *FnCtx {
	pk := p.FuncPkg[fn]
	var tp *types.Package
	if pk != nil {
		tp = pk.Pkg
	} else {
		tp = p.Root.Pkg
	}
	return &FnCtx{P: p, Fn: fn, Name: name, Pkg: tp, C: c}
}

func (fc *FnCtx) reset(dry bool) {
	fc.S = smt.NewScript()
	fc.vals = map[ssa.Value]Val{}
	fc.poisoned, fc.poisonAt, fc.poisonSuc = nil, nil, nil
	fc.reach = map[*ssa.BasicBlock]*smt.Term{}
	fc.out = map[*ssa.BasicBlock]*State{}
	fc.edge = map[[2]int]*smt.Term{}
	fc.params = map[string]Val{}
	fc.Obligs = nil
	fc.Abstr = map[string]int{}
	fc.Used = map[string]bool{}
	fc.Notes = nil
	fc.nextRef = 0
	fc.freshRefs = nil
	fc.refBase = nil
	fc.blockBase = map[*ssa.BasicBlock]*smt.Term{}
	fc.strLits = map[string]*smt.Term{}
	fc.defers = nil
	fc.callOrd = map[string]int{}
	fc.dry = dry
	fc.heapSorts = map[string]smt.Sort{}
	fc.specDecl = map[string]bool{}
	fc.inProgressSpecFn = map[string]bool{}
	fc.ghostCounter = 0
	fc.usedCallAssert = map[string]bool{}
	fc.axiomDone = map[string]bool{}
	fc.typeIDs = nil
	fc.boxes = map[string]boxInfo{}
	fc.errInit = map[string]bool{}
	fc.ctVals = map[string]Val{}
	fc.canonDone = map[string]bool{}
	fc.condFresh = map[string]*smt.Term{}
	fc.recoverCalled = smt.False
	fc.callPanicked = map[string]*smt.Term{}
	fc.callPanicVal = map[string]*smt.Term{}
	fc.typeInvUsed = map[string]bool{}
	fc.refKeys = map[string]bool{}
	fc.byteDone = map[string]bool{}
	fc.ifaces = map[string]types.Type{}
	fc.typeObjs = map[string]types.Type{}
	fc.constFieldsUsed = map[string]bool{}
	fc.callRes = map[string]Val{}
	fc.callGuard = map[string]*smt.Term{}
	fc.escaped = map[string]bool{}
	fc.tainted = map[string]bool{}
	fc.wmDeclared = map[string]bool{}
	fc.subFns = nil
	fc.wmTerms = nil
	if dry {
		fc.written = map[*ssa.BasicBlock]map[string]bool{}
		fc.writtenRefs = map[*ssa.BasicBlock]map[string]map[string]*smt.Term{}
	}
}

// Generate runs the VC generator; it returns an error string if the function
// is outside the supported subset.
func (fc *FnCtx) Generate() (err error) {
	defer func() {
		if r := recover(); r != nil {
			if rf, ok := r.(refusal); ok {
				err = fmt.Errorf("%s: outside the supported subset: %s", fc.Name, rf.msg)
				return
			}
			panic(r)
		}
	}()
	fc.findLoops()
	fc.callOrdinals()
	// dry run: collect heap keys written inside each loop
	fc.reset(true)
	fc.run()
	for _, li := range fc.loopList {
		li.written = map[string]bool{}
		li.writtenRefs = map[string]map[string]*smt.Term{}
		for b := range li.blocks {
			for k := range fc.written[b] {
				li.written[k] = true
			}
			for k, refs := range fc.writtenRefs[b] {
				if li.writtenRefs[k] == nil {
					li.writtenRefs[k] = map[string]*smt.Term{}
				}
				for n, r := range refs {
					li.writtenRefs[k][n] = r
				}
			}
		}
	}
	allSorts := map[string]smt.Sort{}
	for k, v := range fc.heapSorts {
		allSorts[k] = v
	}
	refKeys := fc.refKeys
	fc.reset(false)
	fc.preSorts = allSorts
	for k := range refKeys {
		fc.refKeys[k] = true
	}
	fc.run()
	return nil
}

func (fc *FnCtx) findLoops() {
	fc.loops = map[*ssa.BasicBlock]*loopInfo{}
	fc.loopList = nil
	for _, b := range fc.Fn.Blocks {
		for _, s := range b.Succs {
			if s.Dominates(b) { // back edge b -> s
				li := fc.loops[s]
				if li == nil {
					li = &loopInfo{header: s, blocks: map[*ssa.BasicBlock]bool{s: true}}
					fc.loops[s] = li
				}
				// natural loop: nodes reaching b without passing s
				var stack []*ssa.BasicBlock
				if !li.blocks[b] {
					li.blocks[b] = true
					stack = append(stack, b)
				}
				for len(stack) > 0 {
					n := stack[len(stack)-1]
					stack = stack[:len(stack)-1]
					for _, p := range n.Preds {
						if !li.blocks[p] {
							li.blocks[p] = true
							stack = append(stack, p)
						}
					}
				}
			}
		}
	}
	var hs []*ssa.BasicBlock
	for h := range fc.loops {
		hs = append(hs, h)
	}
	sort.Slice(hs, func(i, j int) bool { return hs[i].Index < hs[j].Index })
	for i, h := range hs {
		li := fc.loops[h]
		li.ord = i + 1
		if fc.C != nil {
			li.ls = fc.C.Loops[i+1]
		}
		fc.loopList = append(fc.loopList, li)
	}
	fc.unboundLoops = nil
	if fc.C != nil {
		for _, name := range smt.SortedKeys(fc.C.NamedLoops) {
			bound := false
			for _, li := range fc.loopList {
				for _, in := range li.header.Instrs {
					phi, ok := in.(*ssa.Phi)
					if !ok {
						break
					}
					if phi.Comment == name && li.ls == nil {
						li.ls = fc.C.NamedLoops[name]
						bound = true
					}
				}
				if bound {
					break
				}
			}
			if !bound {
				fc.unboundLoops = append(fc.unboundLoops, name)
			}
		}
	}
}

func (fc *FnCtx) isBackEdge(from, to *ssa.BasicBlock) bool { return to.Dominates(from) }

func (fc *FnCtx) topo() []*ssa.BasicBlock {
	seen := map[*ssa.BasicBlock]bool{}
	var post []*ssa.BasicBlock
	var dfs func(b *ssa.BasicBlock)
	dfs = func(b *ssa.BasicBlock) {
		seen[b] = true
		for _, s := range b.Succs {
			if fc.isBackEdge(b, s) || seen[s] {
				continue
			}
			dfs(s)
		}
		post = append(post, b)
	}
	dfs(fc.Fn.Blocks[0])
	if fc.Fn.Recover != nil && !seen[fc.Fn.Recover] {
		// the recover block is handled by the panic model, not by normal flow
	}
	for i, j := 0, len(post)-1; i < j; i, j = i+1, j-1 {
		post[i], post[j] = post[j], post[i]
	}
	return post
}

// ---- heap access -----------------------------------------------------------

func (fc *FnCtx) heapSort(key string, valSort smt.Sort) smt.Sort {
	if s, ok := fc.heapSorts[key]; ok {
		return s
	}
	s := smt.Arr(smt.Int, valSort)
	fc.heapSorts[key] = s
	return s
}

// getHeap returns the array for key in st, creating the entry-state symbol on first use.
func (fc *FnCtx) getHeap(st *State, key string, valSort smt.Sort) *smt.Term {
	if t, ok := st.H[key]; ok {
		return t
	}
	as := fc.heapSort(key, valSort)
	// not yet mentioned anywhere: it is unchanged since entry
	if t, ok := fc.entry.H[key]; ok {
		st.H[key] = t
		return t
	}
	t := fc.S.Fresh("H0_"+key, as)
	if fc.guardKey(key) == key && fc.guardKey(key) != "" {
		// objects allocated later are owned by nobody at entry
		r := smt.Const("r!g", smt.Int)
		fc.S.Assert(smt.Forall([]*smt.Term{r}, smt.Implies(smt.Le(r, smt.IntLit(0)), smt.Not(smt.Select(t, r))), []*smt.Term{smt.Select(t, r)}), "")
	}
	// entry heap: everything it holds existed before this call, so it is not one of the
	// (negative) references allocated by this function
	if _, vs, ok := smt.ArrParts(as); ok {
		r := smt.Const("r!h", smt.Int)
		sel := smt.Select(t, r)
		switch {
		case vs == smt.Slice:
			fc.S.Assert(smt.Forall([]*smt.Term{r}, smt.Implies(smt.Ge(r, smt.IntLit(0)), smt.Ge(smt.SlArr(sel), smt.IntLit(0))), []*smt.Term{sel}), "entry heap: existing objects hold no fresh references")
		case vs == smt.Int && fc.refValuedKey(key):
			fc.S.Assert(smt.Forall([]*smt.Term{r}, smt.Implies(smt.Ge(r, smt.IntLit(0)), smt.Ge(sel, smt.IntLit(0))), []*smt.Term{sel}), "entry heap: existing objects hold no fresh references")
		}
	}
	fc.entry.H[key] = t
	st.H[key] = t
	return t
}

func (fc *FnCtx) setHeap(st *State, key string, arr *smt.Term) {
	st.H[key] = fc.S.Define("H_"+key, arr)
	if fc.dry && fc.curBlock != nil {
		m := fc.written[fc.curBlock]
		if m == nil {
			m = map[string]bool{}
			fc.written[fc.curBlock] = m
		}
		m[key] = true
	}
}

// setHeapQuiet updates the heap without recording a whole-key write.
func (fc *FnCtx) setHeapQuiet(st *State, key string, arr *smt.Term) {
	st.H[key] = fc.S.Define("H_"+key, arr)
}

func (fc *FnCtx) readKey(st *State, key string, ref *smt.Term, valSort smt.Sort) *smt.Term {
	if ref.Op == "elemref" {
		if t, ok := fc.constTableField(st, key, ref); ok {
			return t
		}
	}
	return smt.Select(fc.getHeap(st, key, valSort), ref)
}

// constTableField expands a read of field key of element ref.Args[1] of a
// constant table into an ite chain over the index (the read is bounds-checked
// at the IndexAddr, so the index is one of the rows).
func (fc *FnCtx) constTableField(st *State, key string, ref *smt.Term) (*smt.Term, bool) {
	id, ok := ref.Args[0].IsIntLit()
	if !ok || id < 2000000 || int(id-2000000) >= len(fc.P.Spec.ConstTables) {
		return nil, false
	}
	if cur, has := st.H[key]; has && cur != fc.entry.H[key] {
		// look through stores at fresh (negative literal) references
		c := fc.S.Resolve(cur, 1)
		for c.Op == "store" {
			if _, ok := freshRefKey(c.Args[1]); ok {
				c = fc.S.Resolve(c.Args[0], 1)
				continue
			}
			break
		}
		if e, ok := fc.entry.H[key]; !ok || c != e {
			return nil, false // the field map was written in this function
		}
	}
	name := fc.P.Spec.ConstTables[id-2000000]
	rows, stt, err := fc.P.constTable(name)
	if err != nil {
		return nil, false
	}
	col := -1
	for f := 0; f < stt.NumFields(); f++ {
		if len(key) > len(stt.Field(f).Name()) && key[len(key)-len(stt.Field(f).Name())-1:] == "."+stt.Field(f).Name() {
			col = f
		}
	}
	if col < 0 {
		return nil, false
	}
	idx := ref.Args[1]
	t := smt.BigLit(rows[len(rows)-1][col])
	for j := len(rows) - 2; j >= 0; j-- {
		t = smt.Ite(smt.Eq(idx, smt.IntLit(int64(j))), smt.BigLit(rows[j][col]), t)
	}
	return t, true
}

func (fc *FnCtx) writeKey(st *State, key string, ref, v *smt.Term) {
	if key == "Error.err" && !fc.inAlloc {
		fc.errStore(ref, v, fc.pos(0))
	}
	if hasBoolStructure(v, 6) {
		// heap maps are macros and end up inside quantifier patterns (select H r): a stored
		// value with ite / not inside would make the pattern illegal, so it gets a name
		v = fc.S.Name("hval", v)
	}
	if k, ok := freshRefKey(v); ok && v.Sort == smt.Int {
		fc.escaped[k] = true
	}
	if fc.dry && fc.curBlock != nil {
		if _, isFresh := freshRefKey(ref); isFresh {
			m := fc.writtenRefs[fc.curBlock]
			if m == nil {
				m = map[string]map[string]*smt.Term{}
				fc.writtenRefs[fc.curBlock] = m
			}
			if m[key] == nil {
				m[key] = map[string]*smt.Term{}
			}
			m[key][ref.String()] = ref
			fc.setHeapQuiet(st, key, smt.Store(fc.getHeap(st, key, v.Sort), ref, v))
			return
		}
	}
	fc.setHeap(st, key, smt.Store(fc.getHeap(st, key, v.Sort), ref, v))
}

func (fc *FnCtx) havocKey(st *State, key string) {
	s, ok := fc.heapSorts[key]
	if !ok {
		return // never used: nothing known about it anyway
	}
	st.H[key] = fc.S.Fresh("Hv_"+key, s)
	if fc.dry && fc.curBlock != nil {
		m := fc.written[fc.curBlock]
		if m == nil {
			m = map[string]bool{}
			fc.written[fc.curBlock] = m
		}
		m[key] = true
	}
}

func (fc *FnCtx) havocAll(st *State) {
	for _, k := range smt.SortedKeys(fc.heapSorts) {
		if strings.HasPrefix(k, "ghost:") {
			if g, ok := fc.P.Ghost[k[6:]]; ok && g.Global {
				continue // global ghosts change only through an explicit assigns clause
			}
		}
		if fc.P.isConstField(k) {
			fc.Used["field "+k+" is written only while constructing a fresh object (mechanical scan), so calls cannot change it"] = true
			fc.constFieldsUsed[k] = true
			continue
		}
		old := st.H[k]
		fc.havocKey(st, k)
		// captured variables that are never reassigned keep their value
		if old != nil && strings.HasPrefix(k, "cell:") {
			for _, fv := range fc.Fn.FreeVars {
				v, ok := fc.vals[fv]
				if !ok || v.Loc == nil || v.Loc.Kind != LCell || v.Loc.Key != k || !immutableFreeVar(fv) {
					continue
				}
				st.H[k] = fc.S.Define("H_"+k, smt.Store(st.H[k], v.Loc.Base, smt.Select(old, v.Loc.Base)))
				fc.Used["captured variable "+fv.Name()+" is never reassigned (scan of its stores)"] = true
			}
		}
		// objects allocated here that have not escaped yet cannot be touched by the callee
		if old != nil {
			for _, r := range fc.freshRefs {
				key, _ := freshRefKey(r)
				if fc.escaped[key] {
					continue
				}
				st.H[k] = fc.S.Define("H_"+k, smt.Store(st.H[k], r, smt.Select(old, r)))
			}
		}
	}
	fc.abstr("havoc-all")
}

// fieldKey names the heap map of a struct field.
func (fc *FnCtx) fieldKey(structT types.Type, idx int) (key string, ft types.Type) {
	st := structT.Underlying().(*types.Struct)
	f := st.Field(idx)
	name := fc.P.TypeStr(structT, nil)
	if _, isNamed := structT.(*types.Named); !isNamed {
		name = "struct@" + fc.pos(f.Pos())
	} else if cn, ok := fc.P.canonStruct[st]; ok {
		// named types sharing one struct definition (type B A) are views of the same memory
		name = cn
	}
	key = name + "." + f.Name()
	if k := kindOf(f.Type()); (k == KRef || k == KPtr) && fc.refKeys != nil {
		fc.refKeys[key] = true
	}
	return key, f.Type()
}

func (fc *FnCtx) subRef(key string, base *smt.Term) *smt.Term {
	fn := "sub!" + smt.Ident(key)
	if !fc.S.Declared(fn) {
		fc.S.DeclareFun(fn, []smt.Sort{smt.Int}, smt.Int)
		r := smt.Const("r!s", smt.Int)
		app := smt.App(fn, smt.Int, r)
		fc.S.Assert(smt.Forall([]*smt.Term{r}, smt.And(smt.Implies(smt.Lt(r, smt.IntLit(0)), smt.Lt(app, smt.IntLit(0))), smt.Implies(smt.Gt(r, smt.IntLit(0)), smt.Gt(app, smt.IntLit(0)))), []*smt.Term{app}), "an embedded struct is as fresh as the object containing it")
		fc.subFns = append(fc.subFns, fn)
		for _, wm := range fc.wmTerms {
			fc.relateSubWm(fn, wm)
		}
	}
	t := smt.App(fn, smt.Int, base)
	return t
}

// relateSubWm: an embedded struct exists at a loop header exactly if the object
// containing it does (it lies on the same side of the loop's watermark).
func (fc *FnCtx) relateSubWm(fn string, wm *smt.Term) {
	r := smt.Const("r!s", smt.Int)
	app := smt.App(fn, smt.Int, r)
	fc.S.Assert(smt.Forall([]*smt.Term{r}, smt.Iff(smt.Ge(app, wm), smt.Ge(r, wm)), []*smt.Term{app}), "an embedded struct is as old as the object containing it")
}

// newRef returns the reference of a freshly allocated object. Outside loops
// references are the literals -1, -2, ...; inside a loop they are wm - k for
// the loop's watermark wm (a symbol below every reference existing at the
// loop header), so that objects allocated in one iteration are distinct from
// everything the loop-carried state can mention.
func (fc *FnCtx) newRef() *smt.Term {
	fc.nextRef++
	var r *smt.Term
	if fc.refBase == nil {
		r = smt.IntLit(int64(-fc.nextRef))
	} else {
		r = smt.App("+", smt.Int, fc.refBase, smt.IntLit(int64(-fc.nextRef)))
	}
	fc.freshRefs = append(fc.freshRefs, r)
	return r
}

// freshRefKey reports whether t is a reference allocated by this function
// (a negative literal or watermark-relative) and returns a key identifying it.
func freshRefKey(t *smt.Term) (string, bool) {
	if lit, ok := t.IsIntLit(); ok {
		return t.Op, lit < 0
	}
	if t.Op == "+" && len(t.Args) == 2 && strings.HasPrefix(t.Args[0].Op, "wm_") {
		if _, ok := t.Args[1].IsIntLit(); ok {
			return t.String(), true
		}
	}
	return "", false
}

// ---- typed values ------------------------------------------------------------

// fromTerm wraps a term as a value of Go type t.
func (fc *FnCtx) fromTerm(t *smt.Term, ty types.Type) Val {
	v := Val{T: t, GoT: ty}
	switch kindOf(ty) {
	case KRef:
		if p, ok := ty.Underlying().(*types.Pointer); ok {
			v.Loc = &Loc{Kind: LStruct, Base: t, Elem: p.Elem()}
		}
	case KPtr:
		p := ty.Underlying().(*types.Pointer)
		v.Loc = &Loc{Kind: LCell, Base: t, Key: fc.cellKey(p.Elem()), Elem: p.Elem()}
	}
	return v
}

func (fc *FnCtx) cellKey(elem types.Type) string {
	if kindOf(elem) == KArray {
		return "elems"
	}
	if kindOf(elem) == KStrArr {
		return "elemsS"
	}
	return "cell:" + fc.P.TypeStr(elem, nil)
}

// freshVal makes an unconstrained value of type ty (with type-range facts).
func (fc *FnCtx) freshVal(hint string, ty types.Type) Val {
	switch kindOf(ty) {
	case KStruct:
		st := ty.Underlying().(*types.Struct)
		v := Val{GoT: ty, Fs: make([]Val, st.NumFields())}
		for i := 0; i < st.NumFields(); i++ {
			v.Fs[i] = fc.freshVal(hint+"."+st.Field(i).Name(), st.Field(i).Type())
		}
		return v
	case KTuple:
		tu := ty.(*types.Tuple)
		v := Val{GoT: ty, Fs: make([]Val, tu.Len())}
		for i := 0; i < tu.Len(); i++ {
			v.Fs[i] = fc.freshVal(fmt.Sprintf("%s#%d", hint, i), tu.At(i).Type())
		}
		return v
	}
	k := kindOf(ty)
	t := fc.S.Fresh(hint, sortOfKind(k))
	fc.typeFacts(t, ty)
	return fc.fromTerm(t, ty)
}

// typeFacts asserts the representation invariants of a value of type ty.
func (fc *FnCtx) typeFacts(t *smt.Term, ty types.Type) {
	switch kindOf(ty) {
	case KInt:
		fc.S.Assert(inRange(t, ty), "")
	case KStr:
		fc.S.Assert(smt.Le(smt.SLen(t), maxLen), "")
		fc.byteFacts(t)
	case KArray:
		a := ty.Underlying().(*types.Array)
		fc.S.Assert(smt.Eq(smt.SLen(t), smt.IntLit(a.Len())), "")
		if isByte(a.Elem()) {
			fc.byteFacts(t)
		}
	case KSlice:
		fc.S.Assert(smt.And(smt.Le(smt.IntLit(0), smt.SlOff(t)), smt.Le(smt.IntLit(0), smt.SlLen(t)),
			smt.Le(smt.SlLen(t), smt.SlCap(t)), smt.Le(smt.SlCap(t), maxLen), smt.Le(smt.SlOff(t), maxLen), smt.Ge(smt.SlArr(t), smt.IntLit(0)),
			smt.Implies(smt.Eq(smt.SlArr(t), smt.IntLit(0)), smt.And(smt.Eq(smt.SlCap(t), smt.IntLit(0)), smt.Eq(smt.SlOff(t), smt.IntLit(0))))), "")
	case KRef, KPtr:
		fc.S.Assert(smt.Ge(t, smt.IntLit(0)), "")
		if _, isIface := ty.Underlying().(*types.Interface); isIface && ty.Underlying().(*types.Interface).NumMethods() > 0 {
			if _, named := ty.(*types.Named); named {
				fn := fc.implementsFn(ty)
				fc.S.Assert(smt.Implies(smt.Neq(t, smt.IntLit(0)), smt.App(fn, smt.Bool, fc.dtype(t))), "")
			}
		}
	case KStrList:
		fc.S.Assert(smt.Le(smt.LLen(t), maxLen), "")
	case KStrArr:
		a := ty.Underlying().(*types.Array)
		fc.S.Assert(smt.Eq(smt.LLen(t), smt.IntLit(a.Len())), "")
	}
}

var maxLen = smt.BigLit("281474976710656") // 2^48: no object has more elements (listed assumption)

func isByte(t types.Type) bool {
	b, ok := t.Underlying().(*types.Basic)
	return ok && (b.Kind() == types.Uint8)
}

// byteFacts states that every element of s is a byte.
func (fc *FnCtx) byteFacts(s *smt.Term) {
	s = fc.S.Name("bs", s)
	i := smt.Const("i!b", smt.Int)
	at := smt.SAt(s, i)
	fc.S.Assert(smt.Forall([]*smt.Term{i}, smt.And(smt.Le(smt.IntLit(0), at), smt.Le(at, smt.IntLit(255))), []*smt.Term{at}), "")
}

func (fc *FnCtx) zeroVal(ty types.Type) Val {
	switch kindOf(ty) {
	case KInt, KOther:
		return Val{T: smt.IntLit(0), GoT: ty}
	case KBool:
		return Val{T: smt.False, GoT: ty}
	case KStr:
		return Val{T: smt.SEmpty, GoT: ty}
	case KSlice:
		return Val{T: smt.MkSlice(smt.IntLit(0), smt.IntLit(0), smt.IntLit(0), smt.IntLit(0)), GoT: ty}
	case KRef, KPtr:
		return fc.fromTerm(smt.IntLit(0), ty)
	case KStrList:
		return Val{T: smt.LNil, GoT: ty}
	case KStrArr:
		a := ty.Underlying().(*types.Array)
		z := fc.S.Fresh("zerosS", smt.SList)
		i := smt.Const("i!z", smt.Int)
		fc.S.Assert(smt.Eq(smt.LLen(z), smt.IntLit(a.Len())), "")
		fc.S.Assert(smt.Forall([]*smt.Term{i}, smt.Eq(smt.LAt(z, i), smt.SEmpty), []*smt.Term{smt.LAt(z, i)}), "")
		return Val{T: z, GoT: ty}
	case KArray:
		a := ty.Underlying().(*types.Array)
		z := fc.S.Fresh("zeros", smt.Seq)
		i := smt.Const("i!z", smt.Int)
		fc.S.Assert(smt.Eq(smt.SLen(z), smt.IntLit(a.Len())), "")
		fc.S.Assert(smt.Forall([]*smt.Term{i}, smt.Eq(smt.SAt(z, i), smt.IntLit(0)), []*smt.Term{smt.SAt(z, i)}), "")
		return Val{T: z, GoT: ty}
	case KStruct:
		st := ty.Underlying().(*types.Struct)
		v := Val{GoT: ty, Fs: make([]Val, st.NumFields())}
		for i := range v.Fs {
			v.Fs[i] = fc.zeroVal(st.Field(i).Type())
		}
		return v
	case KTuple:
		tu := ty.(*types.Tuple)
		v := Val{GoT: ty, Fs: make([]Val, tu.Len())}
		for i := range v.Fs {
			v.Fs[i] = fc.zeroVal(tu.At(i).Type())
		}
		return v
	}
	return Val{T: smt.IntLit(0), GoT: ty}
}

// term returns the scalar term of v (references for pointers).
func (fc *FnCtx) term(v Val) *smt.Term {
	if v.T != nil {
		return v.T
	}
	if v.Loc != nil {
		switch v.Loc.Kind {
		case LStruct, LCell:
			return v.Loc.Base
		case LField:
			// the address of a non-struct field used as a value (&s.msg passed to a decoder):
			// an opaque non-nil reference determined by the object and the field
			fn := "fptr!" + smt.Ident(v.Loc.Key)
			fc.S.DeclareFun(fn, []smt.Sort{smt.Int}, smt.Int)
			t := smt.App(fn, smt.Int, v.Loc.Base)
			fc.S.Assert(smt.Gt(t, smt.IntLit(0)), "the address of a field is not nil")
			return t
		}
		fc.refuse("interior pointer used as a first-class value (%v)", v)
	}
	if v.Clo != nil {
		return fc.closureRef(v.Clo)
	}
	fc.refuse("aggregate value used as scalar: %v", v)
	return nil
}

var closureIDs = map[*ssa.Function]int64{}

func (fc *FnCtx) closureRef(c *Closure) *smt.Term {
	// known function values are represented by a positive constant per function
	name := "fn_" + smt.Ident(fc.P.FuncName(c.Fn))
	if !fc.S.Declared(name) {
		fc.S.DeclareFun(name, nil, smt.Int)
		fc.S.Assert(smt.Gt(smt.Const(name, smt.Int), smt.IntLit(0)), "")
	}
	return smt.Const(name, smt.Int)
}

// ---- locations ---------------------------------------------------------------

func (fc *FnCtx) loadLoc(st *State, l *Loc, ty types.Type, guard *smt.Term, where string) Val {
	switch l.Kind {
	case LStruct:
		// load of a whole struct value
		fc.nilCheck(l.Base, guard, where)
		return fc.loadStruct(st, l.Base, ty)
	case LCell:
		fc.nilCheck(l.Base, guard, where)
		if kindOf(ty) == KStruct {
			return fc.loadStruct(st, l.Base, ty)
		}
		t := fc.readKey(st, l.Key, l.Base, sortOfKind(kindOf(ty)))
		return fc.loaded(t, ty)
	case LField:
		t := fc.readKey(st, l.Key, l.Base, sortOfKind(kindOf(ty)))
		return fc.loaded(t, ty)
	case LElem:
		seq := fc.readKey(st, "elems", l.Base, smt.Seq)
		t := smt.SAt(seq, l.Idx)
		if l.Off != nil {
			t = smt.SAtOff(seq, l.Off, l.Idx)
		}
		switch kindOf(ty) {
		case KInt:
			fc.S.Assert(inRange(t, ty), "")
			return Val{T: t, GoT: ty}
		case KRef, KPtr:
			return fc.fromTerm(t, ty)
		}
		fc.abstr("non-integer slice element")
		return fc.freshVal("elem", ty)
	case LGlobal:
		if kindOf(ty) == KStruct {
			fc.abstr("struct-typed global")
			return fc.freshVal("g", ty)
		}
		t := fc.readKey(st, l.Key, smt.IntLit(0), sortOfKind(kindOf(ty)))
		return fc.loaded(t, ty)
	case LStrElem:
		lst := fc.readKey(st, "elemsS", l.Base, smt.SList)
		return Val{T: smt.LAt(lst, l.Idx), GoT: ty}
	case LListElem:
		return Val{T: smt.LAt(l.Base, l.Idx), GoT: ty}
	}
	panic("loadLoc")
}

// loaded wraps a heap read with its type facts.
func (fc *FnCtx) loaded(t *smt.Term, ty types.Type) Val {
	switch kindOf(ty) {
	case KInt:
		fc.S.Assert(inRange(t, ty), "")
	case KStr:
		fc.S.Assert(smt.Le(smt.SLen(t), maxLen), "")
	case KSlice:
		k := t.String()
		if !fc.byteDone["sl:"+k] {
			fc.byteDone["sl:"+k] = true
			fc.S.Assert(smt.And(smt.Le(smt.IntLit(0), smt.SlOff(t)), smt.Le(smt.IntLit(0), smt.SlLen(t)), smt.Le(smt.SlLen(t), smt.SlCap(t)), smt.Le(smt.SlCap(t), maxLen),
				smt.Implies(smt.Eq(smt.SlArr(t), smt.IntLit(0)), smt.And(smt.Eq(smt.SlCap(t), smt.IntLit(0)), smt.Eq(smt.SlOff(t), smt.IntLit(0))))), "")
		}
	}
	return fc.fromTerm(t, ty)
}

func (fc *FnCtx) loadStruct(st *State, base *smt.Term, ty types.Type) Val {
	s := ty.Underlying().(*types.Struct)
	v := Val{GoT: ty, Fs: make([]Val, s.NumFields())}
	for i := 0; i < s.NumFields(); i++ {
		key, ft := fc.fieldKey(ty, i)
		if kindOf(ft) == KStruct {
			v.Fs[i] = fc.loadStruct(st, fc.subRef(key, base), ft)
		} else {
			v.Fs[i] = fc.loaded(fc.readKey(st, key, base, sortOfKind(kindOf(ft))), ft)
		}
	}
	return v
}

func (fc *FnCtx) storeStruct(st *State, base *smt.Term, ty types.Type, v Val) {
	s := ty.Underlying().(*types.Struct)
	for i := 0; i < s.NumFields(); i++ {
		key, ft := fc.fieldKey(ty, i)
		if kindOf(ft) == KStruct {
			fc.storeStruct(st, fc.subRef(key, base), ft, v.Fs[i])
		} else {
			fc.writeKey(st, key, base, fc.term(v.Fs[i]))
		}
	}
}

func (fc *FnCtx) storeLoc(st *State, l *Loc, ty types.Type, v Val, guard *smt.Term, where string) {
	switch l.Kind {
	case LStruct:
		fc.nilCheck(l.Base, guard, where)
		fc.storeStruct(st, l.Base, ty, v)
	case LCell:
		fc.nilCheck(l.Base, guard, where)
		if kindOf(ty) == KStruct {
			fc.storeStruct(st, l.Base, ty, v)
			return
		}
		fc.writeKey(st, l.Key, l.Base, fc.term(v))
	case LField:
		fc.writeKey(st, l.Key, l.Base, fc.term(v))
	case LElem:
		if k := kindOf(ty); k != KInt && k != KRef && k != KPtr {
			fc.abstr("non-integer slice element store")
			fc.havocKey(st, "elems")
			return
		}
		seq := fc.readKey(st, "elems", l.Base, smt.Seq)
		idx := l.Idx
		if l.Off != nil {
			idx = smt.Add(l.Off, l.Idx)
		}
		fc.writeKey(st, "elems", l.Base, smt.SUpd(seq, idx, fc.term(v)))
	case LGlobal:
		if kindOf(ty) == KStruct {
			fc.abstr("struct-typed global store")
			return
		}
		fc.writeKey(st, l.Key, smt.IntLit(0), fc.term(v))
	case LStrElem:
		lst := fc.readKey(st, "elemsS", l.Base, smt.SList)
		fc.writeKey(st, "elemsS", l.Base, smt.LUpd(lst, l.Idx, fc.term(v)))
	case LListElem:
		fc.refuse("in-place write to an element of a []string (string slices are modelled as immutable lists)")
	}
}

// ---- obligations ---------------------------------------------------------------

func (fc *FnCtx) oblige(kind, label string, tags []string, guard, goal *smt.Term, where, text string) {
	if fc.dry {
		return
	}
	if goal == smt.True {
		// trivially true obligations are still counted (they are discharged by construction)
	}
	name := fc.Name + "/" + kind
	if label != "" {
		name += "." + label
	}
	name += "@" + where
	// make names unique
	n := 0
	base := name
	for _, o := range fc.Obligs {
		if o.Name == name {
			n++
			name = fmt.Sprintf("%s#%d", base, n+1)
		}
	}
	fc.Obligs = append(fc.Obligs, Oblig{Fn: fc.Name, Name: name, Kind: kind, Label: label, Tags: tags, Guard: guard, Goal: goal, Pos: fc.S.Len(), Where: where, Text: text, Hints: fc.hintsIn(goal)})
}

func (fc *FnCtx) safety(kind string, guard, goal *smt.Term, where string) {
	if fc.C != nil && fc.C.NoSafety {
		return
	}
	if fc.C != nil {
		for _, k := range fc.C.NoSafetyKinds {
			if k == kind {
				return
			}
		}
	}
	if goal == smt.True {
		return
	}
	fc.oblige("safety."+kind, "", nil, guard, goal, where, "")
}

func (fc *FnCtx) nilCheck(base, guard *smt.Term, where string) {
	if where == "spec" {
		return
	}
	if v, ok := base.IsIntLit(); ok && v != 0 {
		return
	}
	if strings.HasPrefix(base.Op, "sub!") || base.Op == "elemref" {
		return
	}
	fc.safety("nil", guard, smt.Neq(base, smt.IntLit(0)), where)
}

// assume adds a hypothesis that holds whenever the current point is reached.
func (fc *FnCtx) assume(guard, fact *smt.Term, comment string) {
	fc.S.Assert(smt.Implies(guard, fact), comment)
}

// strLit returns the Seq constant for a Go string literal.
func (fc *FnCtx) strLit(s string) *smt.Term {
	if s == "" {
		return smt.SEmpty
	}
	if t, ok := fc.strLits[s]; ok {
		return t
	}
	hint := "str_" + smt.Ident(s)
	if len(hint) > 24 {
		hint = hint[:24]
	}
	t := fc.S.Fresh(hint, smt.Seq)
	var facts []*smt.Term
	facts = append(facts, smt.Eq(smt.SLen(t), smt.IntLit(int64(len(s)))))
	for i := 0; i < len(s); i++ {
		facts = append(facts, smt.Eq(smt.SAt(t, smt.IntLit(int64(i))), smt.IntLit(int64(s[i]))))
	}
	fc.S.Assert(smt.And(facts...), fmt.Sprintf("literal %q", s))
	fc.strLits[s] = t
	return t
}

// ---- main loop -------------------------------------------------------------------

func (fc *FnCtx) run() {
	fn := fc.Fn
	fc.entry = &State{H: map[string]*smt.Term{}}
	st0 := &State{H: map[string]*smt.Term{}}
	// parameters
	names := fc.paramNames()
	fc.paramObj = map[string]types.Object{}
	for i, p := range fn.Params {
		v := fc.freshVal("p_"+p.Name(), p.Type())
		fc.vals[p] = v
		if i < len(names) {
			fc.params[names[i]] = v
			fc.paramObj[names[i]] = p.Object()
		}
		fc.params[p.Name()] = v
	}
	for _, fv := range fn.FreeVars {
		v := fc.freshVal("fv_"+fv.Name(), fv.Type())
		if v.GoT == nil {
			v.GoT = fv.Type()
		}
		if v.T != nil && (kindOf(fv.Type()) == KPtr || kindOf(fv.Type()) == KRef) {
			if _, isPtr := fv.Type().Underlying().(*types.Pointer); isPtr {
				fc.S.Assert(smt.Gt(v.T, smt.IntLit(0)), "a captured variable's address is never nil")
			}
		}
		fc.vals[fv] = v
		if _, taken := fc.params[fv.Name()]; !taken {
			// a parameter (by its contract name) wins over a captured variable of the same name
			fc.params[fv.Name()] = v
		}
	}
	// every heap map the function touches exists from the start (known from the dry run),
	// so that objects allocated later can be given all their fields at allocation
	for _, k := range smt.SortedKeys(fc.preSorts) {
		as := fc.preSorts[k]
		if _, vs, ok := smt.ArrParts(as); ok {
			fc.getHeap(st0, k, vs)
		}
	}
	fc.globalFacts()
	// requires
	if fc.C != nil {
		for _, r := range fc.C.Requires {
			ec := &evalCtx{fc: fc, vars: fc.params, cur: st0, old: st0}
			t := ec.boolean(r.E)
			fc.S.Assert(t, "requires "+r.Text)
		}
	}
	if fc.C != nil {
		for _, ln := range fc.C.UseLemmas {
			if fc.assumeGlobalInv(ln, st0) {
				continue
			}
			fc.assumeLemma(ln)
		}
	}
	fc.emitGlobalAxioms(st0)
	fc.assumeTypeInvs(st0)
	fc.splitCases = nil
	if fc.C != nil && len(fc.C.Split) > 0 {
		var all []*smt.Term
		for i, e := range fc.C.Split {
			ec := &evalCtx{fc: fc, vars: fc.params, cur: st0, old: st0}
			c := fc.S.Define(fmt.Sprintf("case!%d", i), ec.boolean(e))
			fc.splitCases = append(fc.splitCases, c)
			all = append(all, c)
		}
		fc.splitCases = append(fc.splitCases, fc.S.Define("case!else", smt.Not(smt.Or(all...))))
	}
	fc.vacuity("entry", smt.True)
	for _, b := range fc.topo() {
		fc.block(b, st0)
	}
}

func (fc *FnCtx) vacuity(where string, guard *smt.Term) {
	if fc.dry {
		return
	}
	fc.Obligs = append(fc.Obligs, Oblig{Fn: fc.Name, Name: fc.Name + "/vacuity@" + where, Kind: "vacuity", Guard: guard, Goal: smt.False, Pos: fc.S.Len(), Where: where, Vacuity: true})
}

func (fc *FnCtx) paramNames() []string {
	if fc.C != nil {
		return fc.C.Params
	}
	return nil
}

func (fc *FnCtx) edgeGuard(from, to *ssa.BasicBlock) *smt.Term {
	return fc.edge[[2]int{from.Index, to.Index}]
}

func (fc *FnCtx) block(b *ssa.BasicBlock, st0 *State) {
	fc.curBlock = b
	var st *State
	li := fc.loops[b]
	if b.Index == 0 {
		fc.reach[b] = smt.True
		st = st0
	} else {
		// merge predecessors (ignoring back edges)
		var preds []*ssa.BasicBlock
		for _, p := range b.Preds {
			if fc.isBackEdge(p, b) {
				continue
			}
			if fc.reach[p] == nil {
				continue // unreachable predecessor (e.g. recover block)
			}
			preds = append(preds, p)
		}
		if len(preds) == 0 {
			fc.reach[b] = nil
			return
		}
		var guards []*smt.Term
		for _, p := range preds {
			guards = append(guards, fc.edgeGuard(p, b))
		}
		fc.reach[b] = fc.S.Define(fmt.Sprintf("r!%d", b.Index), smt.Or(guards...))
		st = fc.mergeStates(preds, guards, b)
		// phis
		for _, in := range b.Instrs {
			phi, ok := in.(*ssa.Phi)
			if !ok {
				break
			}
			var vs []Val
			for _, p := range preds {
				vs = append(vs, fc.phiEdgeVal(phi, p, b))
			}
			fc.vals[phi] = fc.mergeVals(vs, guards, "phi_"+phi.Name())
		}
	}
	fc.curReach = fc.reach[b]
	// allocation watermark: inherited from the (first reachable) predecessor
	fc.refBase = nil
	for _, p := range b.Preds {
		if fc.isBackEdge(p, b) || fc.reach[p] == nil {
			continue
		}
		if pb, ok := fc.blockBase[p]; ok && pb != nil {
			fc.refBase = pb
		}
	}
	if li != nil {
		st = fc.loopHeader(li, st)
	}
	for _, in := range b.Instrs {
		if _, ok := in.(*ssa.Phi); ok {
			continue
		}
		fc.curInstr = in
		fc.instr(in, st)
	}
	fc.out[b] = st
	fc.blockBase[b] = fc.refBase
}

func (fc *FnCtx) phiEdgeVal(phi *ssa.Phi, pred, b *ssa.BasicBlock) Val {
	for i, p := range b.Preds {
		if p == pred {
			return fc.val(phi.Edges[i])
		}
	}
	panic("phiEdgeVal")
}

func (fc *FnCtx) mergeStates(preds []*ssa.BasicBlock, guards []*smt.Term, b *ssa.BasicBlock) *State {
	if len(preds) == 1 {
		return fc.out[preds[0]].clone()
	}
	st := &State{H: map[string]*smt.Term{}}
	keys := map[string]bool{}
	for _, p := range preds {
		for k := range fc.out[p].H {
			keys[k] = true
		}
	}
	for _, k := range smt.SortedKeys(keys) {
		var ts []*smt.Term
		same := true
		for _, p := range preds {
			t, ok := fc.out[p].H[k]
			if !ok {
				t = fc.getHeap(fc.out[p], k, "")
			}
			ts = append(ts, t)
			if t != ts[0] && t.String() != ts[0].String() {
				same = false
			}
		}
		if same {
			st.H[k] = ts[0]
			continue
		}
		m := ts[len(ts)-1]
		for i := len(ts) - 2; i >= 0; i-- {
			m = smt.Ite(guards[i], ts[i], m)
		}
		st.H[k] = fc.S.Name(fmt.Sprintf("Hm_%s_b%d", k, b.Index), m)
	}
	return st
}

func (fc *FnCtx) mergeVals(vs []Val, guards []*smt.Term, hint string) Val {
	if len(vs) == 1 {
		return vs[0]
	}
	v0 := vs[0]
	if v0.Fs != nil {
		out := Val{GoT: v0.GoT, Fs: make([]Val, len(v0.Fs))}
		for i := range v0.Fs {
			var cs []Val
			for _, v := range vs {
				cs = append(cs, v.Fs[i])
			}
			out.Fs[i] = fc.mergeVals(cs, guards, hint)
		}
		return out
	}
	// closures: keep if identical
	if v0.Clo != nil {
		same := true
		for _, v := range vs {
			if v.Clo == nil || v.Clo.Fn != v0.Clo.Fn {
				same = false
			}
		}
		if same {
			return v0
		}
	}
	if v0.T == nil && v0.Loc != nil && (v0.Loc.Kind == LField || v0.Loc.Kind == LElem || v0.Loc.Kind == LGlobal) {
		for _, v := range vs[1:] {
			if v.String() != v0.String() {
				fc.refuse("phi of interior pointers")
			}
		}
		return v0
	}
	ts := make([]*smt.Term, len(vs))
	for i, v := range vs {
		ts[i] = fc.term(v)
	}
	m := ts[len(ts)-1]
	for i := len(ts) - 2; i >= 0; i-- {
		m = smt.Ite(guards[i], ts[i], m)
	}
	return fc.fromTerm(fc.S.Name(hint, m), v0.GoT)
}

// val returns the symbolic value of an SSA value.
// poisonActive: the instruction being executed comes after the in-place sort
// on some path (the engine visits blocks in an order of its own, so "after" is
// decided on the control-flow graph: the rest of the call's block, and every
// block reachable from it).
func (fc *FnCtx) poisonActive() bool {
	return fc.curBlock == fc.poisonAt || fc.poisonSuc[fc.curBlock]
}

func (fc *FnCtx) val(v ssa.Value) Val {
	if fc.poisoned[v] && fc.poisonActive() {
		fc.refuse("use of the []string register %s after sort.Strings reordered another one in place: it may share its backing array", v.Name())
	}
	if x, ok := fc.vals[v]; ok {
		return x
	}
	switch c := v.(type) {
	case *ssa.Const:
		return fc.constVal(c)
	case *ssa.Global:
		key := "g:" + fc.P.GlobalName(c, nil)
		elem := c.Type().(*types.Pointer).Elem()
		if kindOf(elem) == KStruct {
			// struct-typed global: its reference is a constant
			name := "gref_" + smt.Ident(key)
			if !fc.S.Declared(name) {
				fc.S.DeclareFun(name, nil, smt.Int)
				fc.S.Assert(smt.Gt(smt.Const(name, smt.Int), smt.IntLit(0)), "")
			}
			return fc.fromTerm(smt.Const(name, smt.Int), c.Type())
		}
		return Val{Loc: &Loc{Kind: LGlobal, Key: key, Elem: elem}, GoT: c.Type()}
	case *ssa.Function:
		return Val{Clo: &Closure{Fn: c}, GoT: c.Type()}
	case *ssa.Builtin:
		return Val{GoT: c.Type()}
	}
	fc.refuse("use of undefined SSA value %s (%T) in %s", v.Name(), v, fc.Name)
	return Val{}
}

func (fc *FnCtx) constVal(c *ssa.Const) Val {
	ty := c.Type()
	if c.Value == nil {
		return fc.zeroVal(ty)
	}
	switch kindOf(ty) {
	case KInt:
		return Val{T: smt.BigLit(c.Value.ExactString()), GoT: ty}
	case KBool:
		return Val{T: smt.BoolLit(c.Value.String() == "true"), GoT: ty}
	case KStr:
		return Val{T: fc.strLit(constString(c)), GoT: ty}
	}
	fc.abstr("constant of unsupported type " + ty.String())
	return fc.freshVal("const", ty)
}

// hintsIn collects ground applications of hint functions (spec functions whose
// body is the literal true) in t; asserting them is sound and makes the
// solver's relevancy filter see them.
func (fc *FnCtx) hintsIn(t *smt.Term) []*smt.Term {
	var out []*smt.Term
	seen := map[string]bool{}
	var walk func(t *smt.Term, bound map[string]bool)
	var hasBound func(t *smt.Term, bound map[string]bool) bool
	hasBound = func(t *smt.Term, bound map[string]bool) bool {
		if len(t.Args) == 0 && t.Vars == nil {
			return bound[t.Op]
		}
		for _, a := range t.Args {
			if hasBound(a, bound) {
				return true
			}
		}
		return false
	}
	walk = func(t *smt.Term, bound map[string]bool) {
		if t.Vars != nil {
			nb := map[string]bool{}
			for k := range bound {
				nb[k] = true
			}
			for _, v := range t.Vars {
				nb[v.Op] = true
			}
			bound = nb
		}
		if len(t.Op) > 3 && t.Op[:3] == "sf!" {
			if sf, ok := fc.P.SpecFn[t.Op[3:]]; ok && sf.Body != nil {
				if b, isB := sf.Body.(*spec.BoolLit); isB && b.Val && !hasBound(t, bound) {
					k := t.String()
					if !seen[k] {
						seen[k] = true
						out = append(out, t)
					}
				}
			}
		}
		for _, a := range t.Args {
			walk(a, bound)
		}
	}
	walk(t, map[string]bool{})
	return out
}

// emitGlobalAxioms asserts the axioms that mention no specification function
// (facts about sentinels and the like).
func (fc *FnCtx) emitGlobalAxioms(st *State) {
	for _, ax := range fc.P.Spec.Axioms {
		usesFn := false
		walk(ax.E, func(x spec.Expr) {
			if c, ok := x.(*spec.Call); ok {
				if _, isSF := fc.P.SpecFn[c.Fun]; isSF {
					usesFn = true
				}
			}
		})
		if usesFn || fc.axiomDone[ax.Name] {
			continue
		}
		fc.axiomDone[ax.Name] = true
		ec := &evalCtx{fc: fc, vars: map[string]Val{}, cur: st, old: st}
		fc.S.Assert(ec.boolean(ax.E), "axiom "+ax.Name)
		fc.Used["axiom "+ax.Name+" ("+shortFile(ax.File)+")"] = true
	}
}

// assumeTypeInvs assumes, for every parameter whose type has a declared type
// invariant, that the invariant holds (except in the constructor itself).
func (fc *FnCtx) assumeTypeInvs(st *State) {
	for _, ti := range fc.P.Spec.TypeInvs {
		if ti.Ctor == fc.Name {
			continue
		}
		want := fc.P.goTypeByName(ti.Type)
		if want == nil {
			continue
		}
		for _, p := range fc.Fn.Params {
			if !types.Identical(p.Type(), want) {
				continue
			}
			v := fc.vals[p]
			ec := &evalCtx{fc: fc, vars: map[string]Val{ti.Var: v}, cur: st, old: st}
			fc.S.Assert(smt.Implies(smt.Neq(fc.term(v), smt.IntLit(0)), ec.boolean(ti.E)), "type invariant of "+ti.Type)
			fc.Used["type invariant of "+ti.Type+" (established by "+ti.Ctor+", the only function allocating the type: scan; fields immutable: scan)"] = true
			fc.typeInvUsed[ti.Type] = true
		}
	}
}

// immutableFreeVar: the captured variable is never stored through this closure
// and, in the enclosing function, only before the closure is made.
func immutableFreeVar(fv *ssa.FreeVar) bool {
	if refs := fv.Referrers(); refs != nil {
		for _, r := range *refs {
			if st, ok := r.(*ssa.Store); ok && st.Addr == fv {
				return false
			}
		}
	}
	fn := fv.Parent()
	parent := fn.Parent()
	if parent == nil {
		return false
	}
	idx := -1
	for i, f := range fn.FreeVars {
		if f == fv {
			idx = i
		}
	}
	ok := false
	for _, b := range parent.Blocks {
		for _, in := range b.Instrs {
			mc, isMC := in.(*ssa.MakeClosure)
			if !isMC || mc.Fn != fn || idx >= len(mc.Bindings) {
				continue
			}
			al, isAlloc := mc.Bindings[idx].(*ssa.Alloc)
			if !isAlloc {
				return false
			}
			// every store to the variable happens before the closure is made (no path leads
			// from the MakeClosure back to a store), and its address goes nowhere else
			after := map[*ssa.BasicBlock]bool{}
			var work []*ssa.BasicBlock
			work = append(work, mc.Block().Succs...)
			for len(work) > 0 {
				x := work[len(work)-1]
				work = work[:len(work)-1]
				if after[x] {
					continue
				}
				after[x] = true
				work = append(work, x.Succs...)
			}
			pos := func(in ssa.Instruction) int {
				for i, y := range in.Block().Instrs {
					if y == in {
						return i
					}
				}
				return -1
			}
			good := true
			if refs := al.Referrers(); refs != nil {
				for _, r := range *refs {
					switch x := r.(type) {
					case *ssa.Store:
						if x.Addr != al {
							good = false // the address itself is stored somewhere
						} else if after[x.Block()] || (x.Block() == mc.Block() && pos(x) > pos(mc)) {
							good = false
						}
					case *ssa.MakeClosure:
						if x.Fn != fn {
							good = false // shared with another closure: not analysed
						}
					case *ssa.UnOp, *ssa.DebugRef:
					default:
						good = false
					}
				}
			}
			ok = good
		}
	}
	return ok
}

// hasBoolStructure: does t contain (up to the given depth) an operator that is
// not allowed inside a quantifier pattern?
func hasBoolStructure(t *smt.Term, depth int) bool {
	if t == nil || depth < 0 {
		return false
	}
	switch t.Op {
	case "ite", "and", "or", "not", "=>", "=", "<", "<=", ">", ">=", "distinct":
		return true
	}
	for _, a := range t.Args {
		if hasBoolStructure(a, depth-1) {
			return true
		}
	}
	return false
}
