package vc

import (
	"fmt"
	"sort"
	"sync"

	"govc/internal/smt"
	"govc/internal/spec"
)

func (p *Program) Lemma(name string) *spec.Lemma {
	for _, l := range p.Spec.Lemmas {
		if l.Name == name {
			return l
		}
	}
	return nil
}

// lemmaFact is the closed, quantified statement a proved lemma contributes.
func (fc *FnCtx) lemmaFact(lm *spec.Lemma) *smt.Term {
	ec := &evalCtx{fc: fc, vars: map[string]Val{}, cur: fc.entry, old: fc.entry}
	var vars []*smt.Term
	n := ec
	for _, p := range lm.Params {
		bv := smt.Const(p.Name+"!l", specSort(p.Type))
		vars = append(vars, bv)
		n = n.with(p.Name, Val{T: bv})
	}
	body := n.boolean(lm.E)
	if lm.Induct != "" && lm.Measure == nil {
		k := n.bound[lm.Induct].T
		body = smt.Implies(smt.And(smt.Le(n.eval(lm.Lo).T, k), smt.Le(k, n.eval(lm.Hi).T)), body)
	}
	var trigs [][]*smt.Term
	for _, tr := range lm.Triggers {
		var ts []*smt.Term
		for _, te := range tr {
			ts = append(ts, n.eval(te).T)
		}
		trigs = append(trigs, ts)
	}
	return smt.Forall(vars, body, trigs...)
}

func (fc *FnCtx) assumeLemma(name string) {
	lm := fc.P.Lemma(name)
	if lm == nil {
		fc.refuse("unknown lemma %s", name)
	}
	fc.S.Assert(fc.lemmaFact(lm), "lemma "+name+" (proved separately)")
	fc.Used["lemma "+name+" (proved separately)"] = true
}

// VerifyLemma proves a lemma: directly, or by induction (base and step).
func VerifyLemma(p *Program, lm *spec.Lemma, opt Options) FnReport {
	rep := FnReport{Name: "lemma " + lm.Name}
	fc := &FnCtx{P: p, Name: "lemma/" + lm.Name, Pkg: p.Root.Pkg}
	fc.reset(false)
	fc.entry = &State{H: map[string]*smt.Term{}}
	var err error
	func() {
		defer func() {
			if r := recover(); r != nil {
				if rf, ok := r.(refusal); ok {
					err = fmt.Errorf("%s", rf.msg)
					return
				}
				panic(r)
			}
		}()
		ec := &evalCtx{fc: fc, vars: map[string]Val{}, cur: fc.entry, old: fc.entry}
		for _, pr := range lm.Params {
			ec.vars[pr.Name] = Val{T: fc.S.Fresh("l_"+pr.Name, specSort(pr.Type))}
		}
		if lm.Measure != nil {
			// induction on the value of the measure: prove (measure == n ==> E) by induction on n
			lmCopy := *lm
			lmCopy.Params = append(append([]spec.Param{}, lm.Params...), spec.Param{Name: "n!measure", Type: "int"})
			lmCopy.E = &spec.Binary{Op: "==>", X: &spec.Binary{Op: "==", X: lm.Measure, Y: &spec.Ident{Name: "n!measure"}}, Y: lm.E}
			lmCopy.Measure = nil
			lm = &lmCopy
			ec.vars["n!measure"] = Val{T: fc.S.Fresh("l_n", smt.Int)}
		}
		// hints: instances of other lemmas
		for _, u := range lm.Uses {
			c, ok := u.(*spec.Call)
			if !ok {
				fc.refuse("use: expected lemma(args)")
			}
			other := p.Lemma(c.Fun)
			if other == nil {
				fc.refuse("use: unknown lemma %s", c.Fun)
			}
			if len(c.Args) == 0 {
				fc.S.Assert(fc.lemmaFact(other), "lemma "+other.Name)
			} else {
				n := ec
				for i, pr := range other.Params {
					n = n.with(pr.Name, ec.eval(c.Args[i]))
				}
				inst := n.boolean(other.E)
				if other.Induct != "" && other.Measure == nil {
					k := n.bound[other.Induct].T
					inst = smt.Implies(smt.And(smt.Le(n.eval(other.Lo).T, k), smt.Le(k, n.eval(other.Hi).T)), inst)
				}
				fc.S.Assert(inst, "instance of lemma "+other.Name)
			}
			fc.Used["lemma "+other.Name+" (proved separately)"] = true
		}
		if lm.Induct == "" {
			for hi2, h := range lm.Hints {
				fc.oblige("lemma", fmt.Sprintf("hint%d", hi2+1), lm.Tags, smt.True, ec.boolean(h), lm.Name, h.String())
				fc.S.Assert(ec.boolean(h), "hint (proved as its own obligation)")
			}
			fc.oblige("lemma", "direct", lm.Tags, smt.True, ec.boolean(lm.E), lm.Name, lm.E.String())
			return
		}
		k := ec.vars[lm.Induct].T
		lo, hi := ec.eval(lm.Lo).T, ec.eval(lm.Hi).T
		// induction hypothesis, optionally generalised over some parameters
		hypAt := func(kv *smt.Term) *smt.Term {
			n := ec.with(lm.Induct, Val{T: kv})
			var bvs []*smt.Term
			for _, gname := range lm.Generalizing {
				for _, pr := range lm.Params {
					if pr.Name == gname {
						bv := smt.Const(gname+"!g", specSort(pr.Type))
						bvs = append(bvs, bv)
						n = n.with(gname, Val{T: bv})
					}
				}
			}
			return smt.Forall(bvs, n.boolean(lm.E))
		}
		for hi2, h := range lm.Hints {
			fc.oblige("lemma", fmt.Sprintf("hint%d", hi2+1), lm.Tags, smt.True, ec.boolean(h), lm.Name, h.String())
			fc.S.Assert(ec.boolean(h), "hint (proved as its own obligation)")
		}
		if len(lm.Generalizing) > 0 {
			if !lm.Down {
				fc.oblige("lemma", "base", lm.Tags, smt.Le(lo, hi), ec.with(lm.Induct, Val{T: lo}).boolean(lm.E), lm.Name, lm.E.String())
				hyp := smt.And(smt.Le(lo, k), smt.Lt(k, hi), hypAt(k))
				fc.oblige("lemma", "step", lm.Tags, hyp, ec.with(lm.Induct, Val{T: smt.Add(k, smt.IntLit(1))}).boolean(lm.E), lm.Name, lm.E.String())
			} else {
				fc.oblige("lemma", "base", lm.Tags, smt.Le(lo, hi), ec.with(lm.Induct, Val{T: hi}).boolean(lm.E), lm.Name, lm.E.String())
				hyp := smt.And(smt.Lt(lo, k), smt.Le(k, hi), hypAt(k))
				fc.oblige("lemma", "step", lm.Tags, hyp, ec.with(lm.Induct, Val{T: smt.Sub(k, smt.IntLit(1))}).boolean(lm.E), lm.Name, lm.E.String())
			}
			return
		}
		if !lm.Down {
			fc.oblige("lemma", "base", lm.Tags, smt.Le(lo, hi), ec.with(lm.Induct, Val{T: lo}).boolean(lm.E), lm.Name, lm.E.String())
			hyp := smt.And(smt.Le(lo, k), smt.Lt(k, hi), ec.boolean(lm.E))
			fc.oblige("lemma", "step", lm.Tags, hyp, ec.with(lm.Induct, Val{T: smt.Add(k, smt.IntLit(1))}).boolean(lm.E), lm.Name, lm.E.String())
		} else {
			fc.oblige("lemma", "base", lm.Tags, smt.Le(lo, hi), ec.with(lm.Induct, Val{T: hi}).boolean(lm.E), lm.Name, lm.E.String())
			hyp := smt.And(smt.Lt(lo, k), smt.Le(k, hi), ec.boolean(lm.E))
			fc.oblige("lemma", "step", lm.Tags, hyp, ec.with(lm.Induct, Val{T: smt.Sub(k, smt.IntLit(1))}).boolean(lm.E), lm.Name, lm.E.String())
		}
	}()
	if err != nil {
		rep.Err = err.Error()
		return rep
	}
	for u := range fc.Used {
		rep.Used = append(rep.Used, u)
	}
	sort.Strings(rep.Used)
	semOnce.Do(func() {
		n := opt.Parallel
		if n <= 0 {
			n = 8
		}
		sem = make(chan struct{}, n)
	})
	rep.Results = make([]OblResult, len(fc.Obligs))
	var wg sync.WaitGroup
	for i, o := range fc.Obligs {
		wg.Add(1)
		go func(i int, o Oblig) {
			defer wg.Done()
			sem <- struct{}{}
			defer func() { <-sem }()
			rep.Results[i] = discharge(fc, o, opt)
		}(i, o)
	}
	wg.Wait()
	return rep
}
