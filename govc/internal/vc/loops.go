package vc

import (
	"go/token"
	"fmt"
	"strings"
	"go/ast"
	"go/types"

	"golang.org/x/tools/go/ssa"

	"govc/internal/smt"
	"govc/internal/spec"
)

// resolveLocal finds the SSA value (or address) bound to a source-level
// variable name as seen from the start of block b (walking up the dominator
// tree) — phis by their comment, other values through DebugRef.
func (fc *FnCtx) resolveLocal(name string, b *ssa.BasicBlock, before ssa.Instruction) (ssa.Value, bool, bool) {
	first := true
	for blk := b; blk != nil; blk = blk.Idom() {
		instrs := blk.Instrs
		end := len(instrs)
		if first && before != nil {
			for i, in := range instrs {
				if in == before {
					end = i
					break
				}
			}
		}
		if first && before == nil {
			// at the header: only phis of this block are visible
			for _, in := range instrs {
				if phi, ok := in.(*ssa.Phi); ok {
					if phi.Comment == name {
						return phi, false, true
					}
				} else {
					break
				}
			}
			first = false
			continue
		}
		first = false
		for i := end - 1; i >= 0; i-- {
			switch x := instrs[i].(type) {
			case *ssa.Phi:
				if x.Comment == name {
					return x, false, true
				}
			case *ssa.DebugRef:
				if id, ok := x.Expr.(*ast.Ident); ok && id.Name == name {
					if po, isParam := fc.paramObj[name]; isParam && po != nil && x.Object() != nil && x.Object() != po {
						// another variable that merely has the name the contract gives to a
						// parameter (e.g. a captured variable): not what the contract means
						continue
					}
					return x.X, x.IsAddr, true
				}
			}
		}
	}
	return nil, false, false
}

// localVar evaluates a source-level variable at a program point.
func (fc *FnCtx) localVar(name string, b *ssa.BasicBlock, before ssa.Instruction, st *State) (Val, bool) {
	v, isAddr, ok := fc.resolveLocal(name, b, before)
	if !ok {
		// a result name of the contract denotes, inside the function, the value that the
		// function's only return statement returns - if that value already exists at this
		// point (e.g. the object allocated at entry and returned by address). This lets loop
		// invariants speak of "the result under construction" without naming a local.
		if rv, ok := fc.returnedValue(name, b); ok {
			if val, have := fc.vals[rv]; have {
				return val, true
			}
		}
		return Val{}, false
	}
	val, have := fc.vals[v]
	if !have {
		switch v.(type) {
		case *ssa.Const, *ssa.Global, *ssa.Function:
			val = fc.val(v)
		default:
			return Val{}, false
		}
	}
	if isAddr {
		if val.Loc == nil {
			return Val{}, false
		}
		elem := v.Type().Underlying().(*types.Pointer).Elem()
		return fc.loadLoc(st, val.Loc, elem, smt.True, "spec"), true
	}
	return val, true
}

func (fc *FnCtx) loopVars(li *loopInfo, st *State, ghost map[string]Val) func(string) (Val, bool) {
	return func(name string) (Val, bool) {
		if g, ok := ghost[name]; ok {
			return g, true
		}
		return fc.localVar(name, li.header, nil, st)
	}
}

func specSort(ty string) smt.Sort {
	switch ty {
	case "int", "ref":
		return smt.Int
	case "bool":
		return smt.Bool
	case "seq":
		return smt.Seq
	case "slice":
		return smt.Slice
	case "strlist":
		return smt.SList
	}
	return smt.Int
}

func (fc *FnCtx) loopHeader(li *loopInfo, st *State) *State {
	g := fc.curReach
	where := fmt.Sprintf("loop%d", li.ord)
	ls := li.ls
	fc.specLoop = li
	li.preState = st
	if ls == nil {
		ls = &spec.LoopSpec{}
		if !fc.dry {
			fc.Notes = append(fc.Notes, fmt.Sprintf("loop %d has no invariant: its modified state is havocked", li.ord))
		}
	}
	// 1. invariants on entry
	ghost := map[string]Val{}
	for _, gv := range ls.Ghosts {
		ec := &evalCtx{fc: fc, vars: fc.params, cur: st, old: fc.entry, local: fc.loopVars(li, st, nil)}
		ghost[gv.Name] = ec.eval(gv.Init)
	}
	for _, inv := range ls.Invariants {
		ec := &evalCtx{fc: fc, vars: fc.params, cur: st, old: fc.entry, local: fc.loopVars(li, st, ghost)}
		fc.oblige("invariant-entry", inv.Label, inv.Tags, g, ec.boolean(inv.E), where, inv.Text)
	}
	pre := st
	// allocation watermark of this loop: below every reference that exists now
	prevBase := fc.refBase
	wm := fc.S.Fresh(fmt.Sprintf("wm!%d", li.ord), smt.Int)
	if prevBase == nil {
		fc.S.Assert(smt.Le(wm, smt.IntLit(int64(-fc.nextRef))), "loop watermark")
	} else {
		fc.S.Assert(smt.Le(wm, smt.App("+", smt.Int, prevBase, smt.IntLit(int64(-fc.nextRef)))), "loop watermark")
	}
	fc.refBase = wm
	li.wm = wm
	if fc.wmDeclared == nil {
		fc.wmDeclared = map[string]bool{}
	}
	fc.wmDeclared[wm.Op] = true
	fc.wmTerms = append(fc.wmTerms, wm)
	for _, fn := range fc.subFns {
		fc.relateSubWm(fn, wm)
	}
	// 2. havoc
	st2 := st.clone()
	for _, k := range smt.SortedKeys(li.written) {
		fc.havocKey(st2, k)
	}
	for _, k := range smt.SortedKeys(li.writtenRefs) {
		if li.written[k] {
			continue
		}
		hs, ok := fc.heapSorts[k]
		if !ok {
			continue
		}
		_, vs, _ := smt.ArrParts(hs)
		for _, rn := range smt.SortedKeys(li.writtenRefs[k]) {
			ref := li.writtenRefs[k][rn]
			if !fc.existsAtHeader(li, ref) {
				continue // allocated inside this loop (or a loop nested in it): does not exist at the header
			}
			nv := fc.S.Fresh("hvl_"+k, vs)
			switch {
			case vs == smt.Slice:
				fc.S.Assert(smt.Ge(smt.SlArr(nv), wm), "loop-carried slice lies above the watermark")
			case vs == smt.Int && fc.refValuedKey(k):
				fc.S.Assert(smt.Ge(nv, wm), "loop-carried reference lies above the watermark")
			}
			fc.setHeapQuiet(st2, k, smt.Store(fc.getHeap(st2, k, vs), ref, nv))
		}
	}
	// everything the loop-carried state mentions exists already: it is above the watermark
	fc.aboveWatermark(li, st2, wm)
	for _, in := range li.header.Instrs {
		phi, ok := in.(*ssa.Phi)
		if !ok {
			break
		}
		hint := phi.Comment
		if hint == "" {
			hint = phi.Name()
		}
		fc.vals[phi] = fc.freshVal(fmt.Sprintf("L%d_%s", li.ord, hint), phi.Type())
	}
	fc.rangeIndexFacts(li, g)
	li.ghost = map[string]Val{}
	for _, gv := range ls.Ghosts {
		li.ghost[gv.Name] = Val{T: fc.S.Fresh(fmt.Sprintf("L%d_%s", li.ord, gv.Name), specSort(gv.Type))}
	}
	li.hdrState = st2
	// frame of the loop relative to the state before it
	fc.loopFrame(li, ls, pre, st2, true, g, where)
	// 3. assume invariants
	for _, inv := range ls.Invariants {
		ec := &evalCtx{fc: fc, vars: fc.params, cur: st2, old: fc.entry, local: fc.loopVars(li, st2, li.ghost)}
		fc.assume(g, ec.boolean(inv.E), "invariant "+inv.Text)
	}
	if ls.Decreases != nil {
		ec := &evalCtx{fc: fc, vars: fc.params, cur: st2, old: fc.entry, local: fc.loopVars(li, st2, li.ghost)}
		li.variant = fc.S.Define(fmt.Sprintf("L%d_variant", li.ord), ec.eval(ls.Decreases).T)
	}
	fc.vacuity(where, g)
	return st2.clone()
}

// loopFrame assumes (at the header) or checks (at a back edge) that heap keys
// written in the loop are unchanged outside the loop's assigns clause.
func (fc *FnCtx) loopFrame(li *loopInfo, ls *spec.LoopSpec, pre, now *State, assume bool, g *smt.Term, where string) {
	if len(ls.Assigns) == 0 {
		return
	}
	if pre != nil {
		li.preLoop = pre
	}
	pre = li.preLoop
	allowed := map[string][]*smt.Term{}
	whole := map[string]bool{}
	for _, a := range ls.Assigns {
		ec := &evalCtx{fc: fc, vars: fc.params, cur: pre, old: fc.entry, local: fc.loopVars(li, pre, nil)}
		key, ref, _ := ec.location(a)
		if key == "*" {
			return
		}
		if ref == nil {
			whole[key] = true
		} else {
			allowed[key] = append(allowed[key], ref)
		}
	}
	for _, k := range smt.SortedKeys(li.written) {
		if whole[k] {
			continue
		}
		hs, ok := fc.heapSorts[k]
		if !ok {
			continue
		}
		_, vs, _ := smt.ArrParts(hs)
		r := smt.Const("r!f", smt.Int)
		// every object that existed when the loop was entered: pre-existing ones (>= 0) and
		// those this function allocated before the loop (above the loop's watermark)
		exists := smt.Ge(r, smt.IntLit(0))
		if li.wm != nil {
			exists = smt.Ge(r, li.wm)
		}
		notAllowed := []*smt.Term{exists}
		for _, a := range allowed[k] {
			notAllowed = append(notAllowed, smt.Neq(r, a))
		}
		// fresh objects written at literal references are havocked one by one at the header
		for _, rn := range smt.SortedKeys(li.writtenRefs[k]) {
			if fc.existsAtHeader(li, li.writtenRefs[k][rn]) {
				notAllowed = append(notAllowed, smt.Neq(r, li.writtenRefs[k][rn]))
			}
		}
		a0 := fc.S.Name("fr0", fc.getHeap(li.preLoop, k, vs))
		a1 := fc.S.Name("fr1", fc.getHeap(now, k, vs))
		body := smt.Implies(smt.And(notAllowed...), smt.Eq(smt.Select(a1, r), smt.Select(a0, r)))
		q := smt.Forall([]*smt.Term{r}, body, []*smt.Term{smt.Select(a1, r)})
		if assume {
			fc.assume(g, q, "loop frame "+k)
		} else {
			fc.oblige("loop-frame", k, nil, g, q, where, "")
		}
	}
}

// backEdges emits the obligations of every back edge leaving block b.
func (fc *FnCtx) backEdges(b *ssa.BasicBlock, st *State) {
	for _, s := range b.Succs {
		if !fc.isBackEdge(b, s) {
			continue
		}
		li := fc.loops[s]
		if li == nil || li.ls == nil {
			continue
		}
		g := fc.edgeGuard(b, s)
		where := fmt.Sprintf("loop%d.back%d", li.ord, b.Index)
		fc.specLoop = li
		// bind phis to the values flowing along this edge
		saved := map[ssa.Value]Val{}
		var phis []*ssa.Phi
		for _, in := range s.Instrs {
			phi, ok := in.(*ssa.Phi)
			if !ok {
				break
			}
			phis = append(phis, phi)
		}
		edgeVals := map[*ssa.Phi]Val{}
		for _, phi := range phis {
			edgeVals[phi] = fc.phiEdgeVal(phi, b, s)
		}
		// ghost steps are evaluated over the header values
		ghost := map[string]Val{}
		for _, gv := range li.ls.Ghosts {
			ec := &evalCtx{fc: fc, vars: fc.params, cur: li.hdrState, old: fc.entry, local: fc.loopVars(li, li.hdrState, li.ghost)}
			ghost[gv.Name] = ec.eval(gv.Step)
		}
		for _, phi := range phis {
			saved[phi] = fc.vals[phi]
			fc.vals[phi] = edgeVals[phi]
		}
		for _, inv := range li.ls.Invariants {
			ec := &evalCtx{fc: fc, vars: fc.params, cur: st, old: fc.entry, local: fc.loopVars(li, st, ghost)}
			fc.oblige("invariant-preserved", inv.Label, inv.Tags, g, ec.boolean(inv.E), where, inv.Text)
		}
		if li.ls.Decreases != nil && li.variant != nil {
			ec := &evalCtx{fc: fc, vars: fc.params, cur: st, old: fc.entry, local: fc.loopVars(li, st, ghost)}
			now := ec.eval(li.ls.Decreases).T
			fc.oblige("decreases", "", nil, g, smt.And(smt.Le(smt.IntLit(0), li.variant), smt.Lt(now, li.variant)), where, li.ls.Decreases.String())
		}
		fc.loopFrame(li, li.ls, nil, st, false, g, where)
		for _, phi := range phis {
			fc.vals[phi] = saved[phi]
		}
	}
}

// ---- maps (unordered; iteration is abstracted) --------------------------------------

func (fc *FnCtx) mapKeys(mt *types.Map) (dom, val string, ks, vs smt.Sort, ok bool) {
	name := fc.P.TypeStr(mt, nil)
	kk, vk := kindOf(mt.Key()), kindOf(mt.Elem())
	if st, ok := mt.Elem().Underlying().(*types.Struct); ok && st.NumFields() == 0 {
		vk = KInt // map[K]struct{}: a set; the value is irrelevant
	}
	if kk == KStruct || kk == KTuple || kk == KOther || vk == KStruct || vk == KTuple || vk == KOther {
		return "", "", "", "", false
	}
	ks, vs = sortOfKind(kk), sortOfKind(vk)
	return "map:" + name + ":dom", "map:" + name + ":val", ks, vs, true
}

func (fc *FnCtx) makeMap(x *ssa.MakeMap, st *State) Val {
	ref := fc.newRef()
	mt := x.Type().Underlying().(*types.Map)
	dom, _, ks, _, ok := fc.mapKeys(mt)
	if ok {
		e := fc.S.Fresh("emptydom", smt.Arr(ks, smt.Bool))
		k := smt.Const("k!e", ks)
		fc.S.Assert(smt.Forall([]*smt.Term{k}, smt.Not(smt.Select(e, k)), []*smt.Term{smt.Select(e, k)}), "")
		fc.writeKey(st, dom, ref, e)
	}
	return fc.fromTerm(ref, x.Type())
}

func (fc *FnCtx) mapUpdate(x *ssa.MapUpdate, st *State, g *smt.Term, where string) {
	m := fc.term(fc.val(x.Map))
	fc.safety("nil-map", g, smt.Neq(m, smt.IntLit(0)), where)
	mt := x.Map.Type().Underlying().(*types.Map)
	dom, val, ks, vs, ok := fc.mapKeys(mt)
	if !ok {
		fc.abstr("map with unsupported key/value type")
		return
	}
	k := fc.term(fc.val(x.Key))
	var v *smt.Term
	if est, isS := mt.Elem().Underlying().(*types.Struct); isS && est.NumFields() == 0 {
		v = smt.IntLit(0) // map[K]struct{}: a set
	} else {
		v = fc.term(fc.val(x.Value))
	}
	d := fc.readKey(st, dom, m, smt.Arr(ks, smt.Bool))
	a := fc.readKey(st, val, m, smt.Arr(ks, vs))
	// named, so that reads keep the shape select(array, key) that contract patterns use
	fc.writeKey(st, dom, m, fc.S.Name("mdom", smt.Store(d, k, smt.True)))
	fc.writeKey(st, val, m, fc.S.Name("mval", smt.Store(a, k, v)))
}

func (fc *FnCtx) lookup(x *ssa.Lookup, st *State, g *smt.Term, where string) Val {
	if mt, isMap := x.X.Type().Underlying().(*types.Map); isMap {
		m := fc.term(fc.val(x.X))
		dom, val, ks, vs, ok := fc.mapKeys(mt)
		if !ok {
			fc.abstr("map with unsupported key/value type")
			return fc.freshVal("lookup", x.Type())
		}
		k := fc.term(fc.val(x.Index))
		d := fc.readKey(st, dom, m, smt.Arr(ks, smt.Bool))
		a := fc.readKey(st, val, m, smt.Arr(ks, vs))
		present := smt.And(smt.Neq(m, smt.IntLit(0)), smt.Select(d, k))
		if est, ok := mt.Elem().Underlying().(*types.Struct); ok && est.NumFields() == 0 {
			v := fc.zeroVal(mt.Elem())
			if x.CommaOk {
				return Val{Fs: []Val{v, {T: fc.S.Define("mok", present), GoT: types.Typ[types.Bool]}}, GoT: x.Type()}
			}
			return v
		}
		z := fc.zeroVal(mt.Elem())
		v := fc.loaded(fc.S.Define("mv", smt.Ite(present, smt.Select(a, k), z.T)), mt.Elem())
		if x.CommaOk {
			return Val{Fs: []Val{v, {T: fc.S.Define("mok", present), GoT: types.Typ[types.Bool]}}, GoT: x.Type()}
		}
		return v
	}
	// string index
	s := fc.term(fc.val(x.X))
	idx := fc.term(fc.val(x.Index))
	fc.safety("bounds", g, smt.And(smt.Le(smt.IntLit(0), idx), smt.Lt(idx, smt.SLen(s))), where)
	t := smt.SAt(s, idx)
	return Val{T: t, GoT: x.Type()}
}

// iterInfo describes a map iterator (the value of an ssa.Range over a map).
type iterInfo struct {
	ref    *smt.Term // the iterator object; its visited set lives in heap key visKey
	m      *smt.Term // the map
	mt     *types.Map
	dom0   *smt.Term // the map's domain when the iteration started
	visKey string
}

// rangeInit starts an iteration. Over a map with modelled key and value types
// the iterator carries a ghost *visited set* (heap key "iter:<key sort>",
// indexed by the iterator object, so it is loop-carried state like any other
// heap location); see rangeNext. Strings are abstracted.
func (fc *FnCtx) rangeInit(x *ssa.Range, st *State, g *smt.Term, where string) Val {
	mt, isMap := x.X.Type().Underlying().(*types.Map)
	if isMap {
		if dom, _, ks, _, ok := fc.mapKeys(mt); ok {
			ref := fc.newRef()
			m := fc.term(fc.val(x.X))
			visKey := "iter:" + string(ks)
			e := fc.S.Fresh("novisit", smt.Arr(ks, smt.Bool))
			k := smt.Const("k!e", ks)
			fc.S.Assert(smt.Forall([]*smt.Term{k}, smt.Not(smt.Select(e, k)), []*smt.Term{smt.Select(e, k)}), "")
			fc.writeKey(st, visKey, ref, e)
			d0 := fc.S.Name("itdom0", fc.readKey(st, dom, m, smt.Arr(ks, smt.Bool)))
			if fc.iters == nil {
				fc.iters = map[*ssa.Range]*iterInfo{}
			}
			fc.iters[x] = &iterInfo{ref: ref, m: m, mt: mt, dom0: d0, visKey: visKey}
			fc.Used["map iteration: every entry present from the start to the end of the loop is produced exactly once, in any order; entries are read at the time they are produced (Go specification, For statements with range clause)"] = true
			return Val{T: ref, GoT: x.Type()}
		}
	}
	fc.abstr("range over string or unmodelled map (iteration abstracted: any key, any number of times)")
	return Val{T: fc.newRef(), GoT: x.Type()}
}

// rangeNext produces the next entry of a map iteration: ok implies that the
// key is in the map now and has not been produced before, and the value is the
// map's current value; !ok implies that every key that was in the map at the
// start and still is has been produced.
func (fc *FnCtx) rangeNext(x *ssa.Next, st *State, g *smt.Term, where string) Val {
	r, _ := x.Iter.(*ssa.Range)
	it := fc.iters[r]
	if it == nil {
		return fc.freshVal("next", x.Type())
	}
	dom, val, ks, vs, _ := fc.mapKeys(it.mt)
	D := fc.readKey(st, dom, it.m, smt.Arr(ks, smt.Bool))
	V := fc.readKey(st, val, it.m, smt.Arr(ks, vs))
	vis := fc.S.Name("itvis", fc.readKey(st, it.visKey, it.ref, smt.Arr(ks, smt.Bool)))
	ok := fc.S.Fresh("itok", smt.Bool)
	kv := fc.freshVal("itkey", it.mt.Key())
	k := fc.term(kv)
	fc.assume(g, smt.Implies(ok, smt.And(smt.Neq(it.m, smt.IntLit(0)), smt.Select(D, k), smt.Not(smt.Select(vis, k)))), "map iteration: the produced key is in the map and was not produced before")
	q := smt.Const("k!it", ks)
	fc.assume(g, smt.Implies(smt.Not(ok), smt.Forall([]*smt.Term{q},
		smt.Implies(smt.And(smt.Neq(it.m, smt.IntLit(0)), smt.Select(it.dom0, q), smt.Select(D, q)), smt.Select(vis, q)),
		[]*smt.Term{smt.Select(vis, q)}, []*smt.Term{smt.Select(it.dom0, q)})), "map iteration: at the end every remaining entry has been produced")
	var v Val
	if est, isS := it.mt.Elem().Underlying().(*types.Struct); isS && est.NumFields() == 0 {
		v = fc.zeroVal(it.mt.Elem())
	} else {
		v = fc.loaded(fc.S.Define("itval", smt.Select(V, k)), it.mt.Elem())
	}
	fc.writeKey(st, it.visKey, it.ref, fc.S.Name("itvis", smt.Ite(ok, smt.Store(vis, k, smt.True), vis)))
	return Val{Fs: []Val{{T: ok, GoT: types.Typ[types.Bool]}, kv, v}, GoT: x.Type()}
}

// aboveWatermark: references held by loop-carried values (header phis and
// the heap maps havocked at the header) are >= wm.
func (fc *FnCtx) aboveWatermark(li *loopInfo, st *State, wm *smt.Term) {
	for _, in := range li.header.Instrs {
		phi, ok := in.(*ssa.Phi)
		if !ok {
			break
		}
		v := fc.vals[phi]
		if v.T == nil {
			continue
		}
		switch kindOf(phi.Type()) {
		case KRef, KPtr:
			fc.S.Assert(smt.Ge(v.T, wm), "")
		case KSlice:
			fc.S.Assert(smt.Ge(smt.SlArr(v.T), wm), "")
		}
	}
	for _, k := range smt.SortedKeys(li.written) {
		hs, ok := fc.heapSorts[k]
		if !ok {
			continue
		}
		_, vs, _ := smt.ArrParts(hs)
		h, ok := st.H[k]
		if !ok {
			continue
		}
		r := smt.Const("r!w", smt.Int)
		sel := smt.Select(h, r)
		switch {
		case vs == smt.Slice:
			fc.S.Assert(smt.Forall([]*smt.Term{r}, smt.Ge(smt.SlArr(sel), wm), []*smt.Term{sel}), "loop-carried slices lie above the watermark")
		case vs == smt.Int && fc.refValuedKey(k):
			fc.S.Assert(smt.Forall([]*smt.Term{r}, smt.Ge(sel, wm), []*smt.Term{sel}), "loop-carried references lie above the watermark")
		}
	}
}

// refValuedKey: does heap key k hold references (as opposed to integers)?
func (fc *FnCtx) refValuedKey(k string) bool {
	if strings.HasPrefix(k, "ghost:") {
		if g, ok := fc.P.Ghost[k[len("ghost:"):]]; ok && g.Type == "ref" && g.Index == "" {
			return true
		}
	}
	return fc.refKeys[k]
}

// rangeIndexFacts assumes -1 <= idx < length for the hidden index of a
// compiler-generated range loop. The fact is justified by the SSA shape alone,
// which is checked here: the index phi starts at the constant -1, its only
// other incoming value is idx+1, the header tests idx+1 < length where length
// is a len() taken before the loop (or a constant), and every back edge is
// dominated by the true branch of that test. Any other shape gets no fact.
func (fc *FnCtx) rangeIndexFacts(li *loopInfo, g *smt.Term) {
	hdr := li.header
	for _, in := range hdr.Instrs {
		phi, ok := in.(*ssa.Phi)
		if !ok {
			break
		}
		if phi.Comment != "rangeindex" {
			continue
		}
		var incr *ssa.BinOp
		good := true
		for i, e := range phi.Edges {
			pred := hdr.Preds[i]
			if fc.isBackEdge(pred, hdr) {
				b, ok := e.(*ssa.BinOp)
				if !ok || b.Op != token.ADD || b.X != ssa.Value(phi) || b.Block() != hdr {
					good = false
					break
				}
				c, ok := b.Y.(*ssa.Const)
				if !ok || c.Value == nil || c.Int64() != 1 {
					good = false
					break
				}
				incr = b
			} else {
				c, ok := e.(*ssa.Const)
				if !ok || c.Value == nil || c.Int64() != -1 {
					good = false
					break
				}
			}
		}
		if !good || incr == nil {
			continue
		}
		ifi, ok := hdr.Instrs[len(hdr.Instrs)-1].(*ssa.If)
		if !ok {
			continue
		}
		cmp, ok := ifi.Cond.(*ssa.BinOp)
		if !ok || cmp.Op != token.LSS || cmp.X != ssa.Value(incr) || cmp.Block() != hdr {
			continue
		}
		length := cmp.Y
		switch l := length.(type) {
		case *ssa.Const:
		case *ssa.Call:
			bi, isB := l.Call.Value.(*ssa.Builtin)
			if !isB || bi.Name() != "len" || !l.Block().Dominates(hdr) || l.Block() == hdr {
				continue
			}
		default:
			continue
		}
		body := hdr.Succs[0]
		for i := range phi.Edges {
			pred := hdr.Preds[i]
			if fc.isBackEdge(pred, hdr) && !body.Dominates(pred) {
				good = false
			}
		}
		if !good || len(body.Preds) != 1 {
			continue
		}
		idx := fc.vals[phi].T
		lt := fc.term(fc.val(length))
		fc.assume(g, smt.And(smt.Le(smt.IntLit(-1), idx), smt.Lt(idx, smt.App("ite", smt.Int, smt.Lt(lt, smt.IntLit(0)), smt.IntLit(0), lt))), "range index within bounds (from the SSA shape of the range loop)")
		fc.Used["range loop index: -1 <= index < len, derived from the compiler-generated loop shape (checked syntactically)"] = true
	}
}

// returnedValue: the SSA value returned as the contract's result `name` by the
// function's single return statement, provided its definition dominates block b.
func (fc *FnCtx) returnedValue(name string, b *ssa.BasicBlock) (ssa.Value, bool) {
	if fc.C == nil {
		return nil, false
	}
	idx := -1
	for i, r := range fc.C.Results {
		if r == name {
			idx = i
		}
	}
	if idx < 0 {
		return nil, false
	}
	var ret *ssa.Return
	for _, blk := range fc.Fn.Blocks {
		if r, ok := blk.Instrs[len(blk.Instrs)-1].(*ssa.Return); ok {
			if ret != nil {
				return nil, false
			}
			ret = r
		}
	}
	if ret == nil || idx >= len(ret.Results) {
		return nil, false
	}
	v := ret.Results[idx]
	in, ok := v.(ssa.Instruction)
	if !ok {
		return nil, false
	}
	if in.Block() != b && !in.Block().Dominates(b) {
		return nil, false
	}
	return v, true
}

// existsAtHeader: a reference written inside loop li (from the dry run) denotes
// an object that already exists when the loop is entered: a literal, or one
// relative to the watermark of an *enclosing* loop that has been entered. A
// reference relative to this loop's watermark, or to that of a loop nested in
// it, is allocated later (and its watermark is not even declared yet).
func (fc *FnCtx) existsAtHeader(li *loopInfo, ref *smt.Term) bool {
	if ref.Op == "+" && len(ref.Args) == 2 && strings.HasPrefix(ref.Args[0].Op, "wm_") {
		if li.wm != nil && ref.Args[0].Op == li.wm.Op {
			return false
		}
		return fc.wmDeclared[ref.Args[0].Op]
	}
	return true
}
