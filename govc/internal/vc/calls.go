package vc

import (
	"fmt"
	"sort"
	"go/types"
	"strings"

	"golang.org/x/tools/go/ssa"

	"govc/internal/smt"
	"govc/internal/spec"
)

// externalName names a function outside the verified packages: "io.ReadFull",
// "(*bytes.Buffer).Grow", "(binary.bigEndian).PutUint32".
func (p *Program) externalName(fn *ssa.Function) string {
	if recv := fn.Signature.Recv(); recv != nil {
		return "(" + p.TypeStr(recv.Type(), nil) + ")." + fn.Name()
	}
	if fn.Pkg != nil {
		return fn.Pkg.Pkg.Name() + "." + stripTypeArgs(fn.Name())
	}
	if o := fn.Origin(); o != nil && o.Pkg != nil {
		return o.Pkg.Pkg.Name() + "." + stripTypeArgs(o.Name())
	}
	return stripTypeArgs(fn.String())
}

func (fc *FnCtx) nameOfFn(fn *ssa.Function) string {
	if _, ours := fc.P.FuncPkg[fn]; ours {
		return fc.P.FuncName(fn)
	}
	// instantiations / wrappers of our generics
	if o := fn.Origin(); o != nil {
		if _, ours := fc.P.FuncPkg[o]; ours {
			return fc.P.FuncName(o)
		}
	}
	return fc.P.externalName(fn)
}

// pure external functions: no effect on any modelled state, result unconstrained.
var pureExternal = []string{
	"fmt.Sprintf", "fmt.Sprint", "fmt.Errorf", "fmt.Sprintln", "errors.New", "errors.Is", "errors.Unwrap",
	"strings.", "strconv.", "utf8.", "unicode.", "time.", "math.", "path.", "url.", "bytes.Equal", "bytes.HasPrefix",
	"http.CanonicalHeaderKey", "http.StatusText", "textproto.CanonicalMIMEHeaderKey", "textproto.TrimString",
	"(time.Duration).", "(time.Time).", "(*strings.Builder).String", "(*strings.Builder).Len",
	"base64.", "(*base64.Encoding).EncodeToString", "(*base64.Encoding).DecodeString", "(*base64.Encoding).EncodedLen",
	"context.Background", "context.TODO", "(reflect.", "reflect.", "runtime.", "os.Getenv", "sort.SearchStrings",
	"(protoreflect.", "(*url.URL).String", "(*url.URL).", "(http.Header).Get", "(http.Header).Values", "(http.Header).Clone",
	"error.Error", "fmt.Stringer.String", "(*url.Error).", "(*sync.Mutex).", "(*sync.RWMutex).",
}

func isPureExternal(name string) bool {
	for _, p := range pureExternal {
		if strings.HasSuffix(p, ".") || strings.HasSuffix(p, "(") {
			if strings.HasPrefix(name, p) {
				return true
			}
		} else if name == p {
			return true
		}
	}
	return false
}

func (fc *FnCtx) call(instr ssa.Instruction, c *ssa.CallCommon, st *State, g *smt.Term, where string) Val {
	var resT types.Type
	if v, ok := instr.(ssa.Value); ok {
		resT = v.Type()
	} else {
		resT = c.Signature().Results()
	}
	// builtins
	if b, ok := c.Value.(*ssa.Builtin); ok {
		return fc.builtin(b, c, resT, st, g, where)
	}
	var args []Val
	var name string
	var calleeFn *ssa.Function
	var sig *types.Signature
	_ = sig
	switch {
	case c.IsInvoke():
		recv := fc.val(c.Value)
		fc.safety("nil", g, smt.Neq(fc.term(recv), smt.IntLit(0)), where)
		args = append(args, recv)
		name = fc.P.TypeStr(c.Value.Type(), nil) + "." + c.Method.Name()
		sig = c.Signature()
	default:
		sig = c.Signature()
		fv := fc.val(c.Value)
		if fn := c.StaticCallee(); fn != nil {
			calleeFn = fn
			if mc, ok := c.Value.(*ssa.MakeClosure); ok {
				for _, b := range mc.Bindings {
					_ = b
				}
			}
		} else if fv.Clo != nil {
			calleeFn = fv.Clo.Fn
		}
		if calleeFn != nil {
			name = fc.nameOfFn(calleeFn)
		} else {
			name = fc.funcValueName(c.Value)
			fc.safety("nil", g, smt.Neq(fc.term(fv), smt.IntLit(0)), where)
		}
	}
	for _, a := range c.Args {
		args = append(args, fc.val(a))
	}
	for _, a := range args {
		fc.markEscaped(a)
	}
	ord, okOrd := fc.staticOrd[instr]
	if !okOrd || fc.staticName[instr] != name {
		fc.callOrd[name]++
		ord = fc.callOrd[name] + 1000 // dynamically resolved callee: not addressable by ordinal
	}
	// call-site assertions (before)
	fc.callAsserts(name, ord, true, args, nil, c, instr, st, g, where)

	var res Val
	cs := fc.P.Contract[name]
	// A contract variant "name[T]" applies where an interface argument is, statically,
	// a value of concrete type T (the call converts it with MakeInterface).
	for _, a := range c.Args {
		if mi, ok := a.(*ssa.MakeInterface); ok {
			if v := fc.P.Contract[name+"["+fc.P.TypeStr(mi.X.Type(), nil)+"]"]; v != nil {
				cs = v
				break
			}
		}
	}
	fc.callGuard[fmt.Sprintf("%s#%d", name, ord)] = g
	switch {
	case fc.special(name, c, args, resT, st, g, where, &res):
	case cs != nil:
		res = fc.applyContract(cs, name, args, resT, st, g, where)
		if cs.Panics && !fc.dry {
			key := fmt.Sprintf("%s#%d", name, ord)
			pk := fc.S.Fresh("pk", smt.Bool)
			pv := fc.S.Fresh("pv", smt.Int)
			fc.S.Assert(smt.Ge(pv, smt.IntLit(0)), "")
			fc.callPanicked[key] = pk
			fc.callPanicVal[key] = pv
			stE := st.clone()
			save := fc.curReach
			fc.unwind(stE, fc.S.Define("gp", smt.And(g, pk)), pv, where)
			fc.curReach = fc.S.Define("gn", smt.And(save, smt.Not(pk)))
		}
	default:
		res = fc.uncontracted(name, calleeFn, args, resT, st, g, where)
	}
	fc.callRes[fmt.Sprintf("%s#%d", name, ord)] = res
	fc.callGuard[fmt.Sprintf("%s#%d", name, ord)] = g
	fc.callAsserts(name, ord, false, args, &res, c, instr, st, g, where)
	return res
}

func (fc *FnCtx) funcValueName(v ssa.Value) string {
	switch x := v.(type) {
	case *ssa.Parameter:
		return fc.Name + "." + x.Name()
	case *ssa.FreeVar:
		return fc.Name + "." + x.Name()
	case *ssa.UnOp:
		if fa, ok := x.X.(*ssa.FieldAddr); ok {
			pt := fa.X.Type().Underlying().(*types.Pointer)
			key, _ := fc.fieldKey(pt.Elem(), fa.Field)
			for _, fi := range fc.P.Spec.FieldIs {
				if fi[0] == key {
					// the field only ever holds this function (scan obligation): devirtualised
					if fc.devirtUsed == nil {
						fc.devirtUsed = map[string]string{}
					}
					fc.devirtUsed[key] = fi[1]
					return fi[1]
				}
			}
			return "field:" + key
		}
		if fv, ok := x.X.(*ssa.FreeVar); ok {
			return fc.Name + "." + fv.Name()
		}
	case *ssa.Field:
		st := x.X.Type().Underlying().(*types.Struct)
		return "field:" + fc.P.TypeStr(x.X.Type(), nil) + "." + st.Field(x.Field).Name()
	case *ssa.Phi:
		if x.Comment != "" {
			return fc.Name + "." + x.Comment
		}
	case *ssa.Extract:
		if c, ok := x.Tuple.(*ssa.Call); ok {
			var cn string
			if c.Call.IsInvoke() {
				cn = fc.P.TypeStr(c.Call.Value.Type(), nil) + "." + c.Call.Method.Name()
			} else if fn := c.Call.StaticCallee(); fn != nil {
				cn = fc.nameOfFn(fn)
			}
			if cn != "" {
				return fmt.Sprintf("ret:%s.%d", cn, x.Index)
			}
		}
	}
	return "funcvalue:" + fc.Name + ":" + v.Name()
}

func (fc *FnCtx) callAsserts(name string, ord int, before bool, args []Val, res *Val, c *ssa.CallCommon, instr ssa.Instruction, st *State, g *smt.Term, where string) {
	cs := fc.C
	if cs == nil && fc.inline != nil && fc.parentCtx != nil {
		// a deferred closure inlined into its function: the function's call-site
		// assertions apply to the calls it makes (ordinals count within the closure)
		cs = fc.parentCtx.C
	}
	if cs == nil {
		return
	}
	for _, ca := range cs.CallAsserts {
		if ca.Callee != name || ca.Before != before || (ca.Ord != 0 && ca.Ord != ord) {
			continue
		}
		vars := map[string]Val{}
		for k, v := range fc.params {
			vars[k] = v
		}
		for i, a := range args {
			vars[fmt.Sprintf("arg%d", i)] = a
		}
		if res != nil {
			vars["res"] = *res
		}
		blk := instr.Block()
		ec := &evalCtx{fc: fc, vars: vars, cur: st, old: fc.entry, local: func(n string) (Val, bool) { return fc.localVar(n, blk, instr, st) }}
		kind := "assert@call"
		if !before {
			kind = "assert@after"
		}
		goal := ec.booleanOrUnprovable(ca.Clause.E)
		fc.oblige(kind, ca.Clause.Label, ca.Clause.Tags, g, goal, where, ca.Clause.Text)
		if goal != smt.False {
			fc.assume(g, goal, "asserted above: "+ca.Clause.Text)
		}
		fc.usedCallAssert[ca.Clause.Label+ca.Clause.Text] = true
		if imp, ok := ca.Clause.E.(*spec.Binary); !ok || imp.Op != "==>" || ec.boolean(imp.X) != smt.False {
			fc.usedCallAssert["cover:"+ca.Clause.Label+ca.Clause.Text] = true
		}
	}
}

// uncontracted models a call with no contract.
func (fc *FnCtx) uncontracted(name string, fn *ssa.Function, args []Val, resT types.Type, st *State, g *smt.Term, where string) Val {
	for _, a := range args {
		if a.GoT != nil && kindOf(a.GoT) == KStrList && !isPureExternal(name) {
			// []string is modelled as an immutable value; a callee that may reorder or overwrite
			// its elements in place (sort.Strings) cannot be modelled by havocking the heap
			fc.refuse("a []string is passed to %s, which has no contract: in-place mutation of string slices is outside the value model", name)
		}
	}
	_, ours := fc.P.Funcs[name]
	if fn != nil {
		_, ours = fc.P.FuncPkg[fn]
	}
	switch {
	case ours:
		fc.abstr("call to module function without contract (everything havocked): " + name)
		fc.havocAll(st)
	case isPureExternal(name):
		fc.Used["external "+name+": assumed to have no effect on modelled state; result unconstrained"] = true
	default:
		fc.abstr("call to external function without contract (everything havocked): " + name)
		fc.havocAll(st)
	}
	return fc.callResult("r_"+name, resT)
}

func (fc *FnCtx) callResult(hint string, resT types.Type) Val {
	if tu, ok := resT.(*types.Tuple); ok && tu.Len() == 0 {
		return Val{GoT: resT}
	}
	if len(hint) > 30 {
		hint = hint[:30]
	}
	return fc.freshVal(hint, resT)
}

// applyContract is the modular call rule: assert requires, havoc assigns,
// assume ensures.
func (fc *FnCtx) applyContract(cs *spec.FuncSpec, name string, args []Val, resT types.Type, st *State, g *smt.Term, where string) Val {
	if cs.Trusted {
		fc.Used["trusted contract "+name+" ("+shortFile(cs.File)+")"] = true
	} else {
		fc.Used["contract "+name+" (proved separately)"] = true
	}
	vars := map[string]Val{}
	if len(cs.Params) != len(args) {
		fc.refuse("contract %s has %d parameters, call has %d arguments", name, len(cs.Params), len(args))
	}
	for i, p := range cs.Params {
		vars[p] = args[i]
	}
	pre := st.clone()
	for _, r := range cs.Requires {
		ec := &evalCtx{fc: fc, vars: vars, cur: pre, old: pre}
		lab := name
		if r.Label != "" {
			lab += "." + r.Label
		}
		fc.oblige("requires@call", lab, nil, g, ec.boolean(r.E), where, r.Text)
	}
	// results
	var res Val
	var resVals []Val
	tu, isTuple := resT.(*types.Tuple)
	switch {
	case isTuple && tu.Len() == 0:
		res = Val{GoT: resT}
	case isTuple:
		res = Val{GoT: resT, Fs: make([]Val, tu.Len())}
		for i := 0; i < tu.Len(); i++ {
			res.Fs[i] = fc.resultVal(cs, i, tu.At(i).Type(), name)
		}
		resVals = res.Fs
	default:
		res = fc.resultVal(cs, 0, resT, name)
		resVals = []Val{res}
	}
	for i, rn := range cs.Results {
		if i < len(resVals) {
			vars[rn] = resVals[i]
		}
	}
	// a result the callee allocated is a new object: all its fields and ghost
	// fields are whatever the callee made them (constrained by the ensures below)
	for _, rv := range resVals {
		if rv.T == nil {
			continue
		}
		obj := rv.T
		if _, isFresh := freshRefKey(rv.T); !isFresh {
			l, isCond := fc.condFresh[rv.T.Op]
			if !isCond {
				continue
			}
			obj = l
		}
		for _, k := range smt.SortedKeys(fc.heapSorts) {
			_, kvs, ok := smt.ArrParts(fc.heapSorts[k])
			if !ok {
				continue
			}
			fc.setHeapQuiet(st, k, smt.Store(fc.getHeap(st, k, kvs), obj, fc.S.Fresh("new_"+k, kvs)))
		}
	}
	// havoc assigns
	for _, a := range cs.Assigns {
		ec := &evalCtx{fc: fc, vars: vars, cur: pre, old: pre}
		fc.lastElemsSlice = nil
		if fkeys, fref, fsorts, isFields := ec.fieldLocations(a); isFields {
			for i, k := range fkeys {
				fc.getHeap(st, k, fsorts[i])
				nv := fc.S.Fresh("hv_"+k, fsorts[i])
				fc.existsNow(nv, k)
				fc.writeKey(st, k, fref, nv)
			}
			continue
		}
		if id, isID := a.(*spec.Ident); isID && id.Name == "callerfresh" {
			// the callee may write to (only) the objects this function allocated itself
			for _, k := range smt.SortedKeys(fc.heapSorts) {
				hs := fc.heapSorts[k]
				_, kvs, _ := smt.ArrParts(hs)
				for _, r := range fc.freshRefs {
					fc.setHeap(st, k, smt.Store(fc.getHeap(st, k, kvs), r, fc.S.Fresh("hvf_"+k, kvs)))
				}
			}
			continue
		}
		key, ref, vs := ec.location(a)
		if key == "elems" && fc.lastElemsSlice != nil {
			// only the slice's window [off, off+cap) of the backing array can change
			sl := fc.lastElemsSlice
			oldSeq := smt.Select(fc.getHeap(st, key, vs), ref)
			nv := fc.S.Fresh("hv_elems", smt.Seq)
			i := smt.Const("i!w", smt.Int)
			outside := smt.Or(smt.Lt(i, smt.SlOff(sl)), smt.Ge(i, smt.Add(smt.SlOff(sl), smt.SlCap(sl))))
			fc.S.Assert(smt.Eq(smt.SLen(nv), smt.SLen(oldSeq)), "arrays keep their length")
			fc.S.Assert(smt.Forall([]*smt.Term{i}, smt.Implies(outside, smt.Eq(smt.SAt(nv, i), smt.SAt(oldSeq, i))), []*smt.Term{smt.SAt(nv, i)}), "elements outside the slice window are unchanged")
			fc.writeKey(st, key, ref, nv)
			continue
		}
		switch {
		case key == "*":
			fc.havocAll(st)
		case ref == nil:
			fc.heapSort(key, vs)
			fc.havocKey(st, key)
		default:
			old := smt.Select(fc.getHeap(st, key, vs), ref)
			nv := fc.S.Fresh("hv_"+key, vs)
			fc.existsNow(nv, key)
			if _, isLit := ref.IsIntLit(); !isLit && ref.Sort == smt.Int {
				// assigning through a nil reference changes nothing
				nv = fc.S.Name("hvn_"+key, smt.Ite(smt.Eq(ref, smt.IntLit(0)), old, nv))
			}
			if key == "elems" {
				fc.S.Assert(smt.Eq(smt.SLen(nv), smt.SLen(old)), "arrays keep their length")
			}
			fc.writeKey(st, key, ref, nv)
		}
	}
	if !cs.Trusted {
		fc.ownershipHavoc(pre, st)
	}
	for _, e := range cs.Ensures {
		if mentionsCalleeInternals(e.E) {
			// a clause about the callee's own call sites (callres, called, ...) says nothing to a caller
			continue
		}
		if hasOwnTag(e.Tags) {
			// "tags: ..., own": proved for the callee, deliberately not handed to its callers
			// (a quantified clause no caller needs only feeds the matching loop of their proofs)
			continue
		}
		ec := &evalCtx{fc: fc, vars: vars, cur: st, old: pre, assumeMode: true}
		fc.assume(g, ec.boolean(e.E), "ensures of "+name+": "+e.Text)
	}
	for _, e := range cs.Defines {
		ec := &evalCtx{fc: fc, vars: vars, cur: st, old: pre, assumeMode: true}
		fc.assume(g, ec.boolean(e.E), "definition by "+name+": "+e.Text)
	}
	return res
}

// resultVal creates the i-th result; a result declared fresh(res) gets a new reference literal.
func (fc *FnCtx) resultVal(cs *spec.FuncSpec, i int, ty types.Type, name string) Val {
	if i < len(cs.Results) {
		rn := cs.Results[i]
		for _, e := range cs.Ensures {
			if isFreshOf(e.E, rn) {
				return fc.fromTerm(fc.newRef(), ty)
			}
		}
	}
	hint := "r_" + name
	if len(hint) > 28 {
		hint = hint[:28]
	}
	if i < len(cs.Results) && (kindOf(ty) == KRef || kindOf(ty) == KPtr) {
		rn := cs.Results[i]
		for _, e := range cs.Ensures {
			if mentionsFreshOf(e.E, rn) {
				// conditionally fresh: the result is a symbol, fresh(res) means "is the new object L"
				t := fc.S.Fresh(hint, smt.Int)
				fc.condFresh[t.Op] = fc.newRef()
				return fc.fromTerm(t, ty)
			}
		}
	}
	return fc.freshVal(hint, ty)
}

func mentionsFreshOf(e spec.Expr, name string) bool {
	found := false
	walk(e, func(x spec.Expr) {
		if c, ok := x.(*spec.Call); ok && c.Fun == "fresh" && len(c.Args) == 1 {
			if id, ok := c.Args[0].(*spec.Ident); ok && id.Name == name {
				found = true
			}
		}
	})
	return found
}

func isFreshOf(e spec.Expr, name string) bool {
	switch x := e.(type) {
	case *spec.Call:
		if x.Fun == "fresh" && len(x.Args) == 1 {
			if id, ok := x.Args[0].(*spec.Ident); ok && id.Name == name {
				return true
			}
		}
	case *spec.Binary:
		if x.Op == "&&" {
			return isFreshOf(x.X, name) || isFreshOf(x.Y, name)
		}
	}
	return false
}

func shortFile(f string) string {
	if i := strings.LastIndex(f, "/"); i >= 0 {
		return f[i+1:]
	}
	return f
}

// ---- builtins -------------------------------------------------------------------

func (fc *FnCtx) builtin(b *ssa.Builtin, c *ssa.CallCommon, resT types.Type, st *State, g *smt.Term, where string) Val {
	switch b.Name() {
	case "len", "cap":
		v := fc.val(c.Args[0])
		switch kindOf(c.Args[0].Type()) {
		case KStr:
			return Val{T: smt.SLen(fc.term(v)), GoT: resT}
		case KStrList, KStrArr:
			return Val{T: smt.LLen(fc.term(v)), GoT: resT}
		case KSlice:
			if b.Name() == "cap" {
				return Val{T: smt.SlCap(fc.term(v)), GoT: resT}
			}
			return Val{T: smt.SlLen(fc.term(v)), GoT: resT}
		case KArray:
			return Val{T: smt.SLen(fc.term(v)), GoT: resT}
		case KPtr:
			arr := c.Args[0].Type().Underlying().(*types.Pointer).Elem().Underlying().(*types.Array)
			return Val{T: smt.IntLit(arr.Len()), GoT: resT}
		case KRef: // map / chan
			if mt, ok := c.Args[0].Type().Underlying().(*types.Map); ok {
				dom, _, ks, _, ok2 := fc.mapKeys(mt)
				if ok2 {
					fn := "maplen!" + smt.Ident(string(ks))
					fc.S.DeclareFun(fn, []smt.Sort{smt.Arr(ks, smt.Bool)}, smt.Int)
					m := fc.term(v)
					d := fc.readKey(st, dom, m, smt.Arr(ks, smt.Bool))
					t := smt.App(fn, smt.Int, d)
					fc.assume(smt.True, smt.Ge(t, smt.IntLit(0)), "")
					return Val{T: smt.Ite(smt.Eq(m, smt.IntLit(0)), smt.IntLit(0), t), GoT: resT}
				}
			}
		}
		r := fc.freshVal("len", resT)
		fc.assume(smt.True, smt.Ge(r.T, smt.IntLit(0)), "")
		return r
	case "append":
		return fc.appendBuiltin(c, resT, st, g, where)
	case "copy":
		fc.abstr("copy builtin (destination havocked)")
		fc.havocKey(st, "elems")
		r := fc.freshVal("copied", resT)
		return r
	case "delete":
		mt := c.Args[0].Type().Underlying().(*types.Map)
		dom, _, ks, _, ok := fc.mapKeys(mt)
		if ok {
			m := fc.term(fc.val(c.Args[0]))
			k := fc.term(fc.val(c.Args[1]))
			d := fc.readKey(st, dom, m, smt.Arr(ks, smt.Bool))
			fc.writeKey(st, dom, m, smt.Store(d, k, smt.False))
		}
		return Val{GoT: resT}
	case "panic":
		fc.safety("panic", g, smt.False, where)
		return Val{GoT: resT}
	case "recover":
		if fc.recoverVal != nil {
			fc.recoverCalled = smt.Or(fc.recoverCalled, g)
			v := *fc.recoverVal
			v.GoT = resT
			return v
		}
		return fc.freshVal("recovered", resT)
	case "min", "max":
		x, y := fc.term(fc.val(c.Args[0])), fc.term(fc.val(c.Args[1]))
		if b.Name() == "min" {
			return Val{T: smt.Ite(smt.Le(x, y), x, y), GoT: resT}
		}
		return Val{T: smt.Ite(smt.Ge(x, y), x, y), GoT: resT}
	case "close":
		return Val{GoT: resT}
	case "print", "println":
		return Val{GoT: resT}
	}
	fc.abstr("builtin " + b.Name())
	return fc.callResult("builtin", resT)
}

// appendBuiltin models append(s, elems...) for integer/reference elements: a
// fresh backing array holding old content ++ new content (re-use of spare
// capacity is not modelled; aliasing through append is outside the subset).
func (fc *FnCtx) appendBuiltin(c *ssa.CallCommon, resT types.Type, st *State, g *smt.Term, where string) Val {
	switch fc.reslicedOrigin(c.Args[0]) {
	case resliceLocal:
		fc.refuse("append to a re-slice of a locally allocated slice at %s: it may write into the original's backing array, which the fresh-array model of append does not represent", where)
	case resliceForeign:
		// append(x[a:b], ...) with spare capacity writes into x's backing array:
		// memory the function was handed by its caller (or loaded from the heap)
		// and has no permission to change. Slices are modelled by value, so the
		// write itself is not represented; the frame condition is that it cannot
		// happen, which holds only if this point is unreachable.
		fc.oblige("frame", "append-does-not-write-into-the-backing-array-of-a-re-sliced-slice", nil, g, smt.False, where,
			"append(x[a:b], ...) re-uses x's spare capacity and overwrites x's elements (and every other slice sharing that array)")
	}
	s := fc.term(fc.val(c.Args[0]))
	if kindOf(resT) == KStrList {
		other := fc.term(fc.val(c.Args[1]))
		if other.Sort != smt.SList {
			fc.abstr("append to []string with unsupported argument")
			return fc.freshVal("appended", resT)
		}
		return Val{T: fc.S.Define("appS", smt.LApp(s, other)), GoT: resT}
	}
	var add *smt.Term
	switch kindOf(c.Args[1].Type()) {
	case KStr:
		add = fc.term(fc.val(c.Args[1]))
	case KSlice:
		add = fc.seqOfSlice(st, fc.term(fc.val(c.Args[1])))
	default:
		fc.abstr("append with unsupported argument")
		return fc.freshVal("appended", resT)
	}
	sl := resT.Underlying().(*types.Slice)
	ek := kindOf(sl.Elem())
	if ek != KInt && ek != KRef && ek != KPtr {
		fc.abstr("append on slice of " + sl.Elem().String() + " (result unconstrained)")
		return fc.freshVal("appended", resT)
	}
	old := fc.seqOfSlice(st, s)
	// a declared constant, not a macro: the appended element may be an ite (a type
	// assertion's result), which must not end up inside a quantifier pattern
	content := fc.S.Name("app", smt.SCat(old, add))
	arr := fc.newRef()
	fc.writeKey(st, "elems", arr, content)
	ln := smt.SLen(content)
	cp := fc.S.Fresh("appcap", smt.Int)
	fc.S.Assert(smt.And(smt.Ge(cp, ln), smt.Le(cp, maxLen)), "")
	// the model needs cap == len for the backing array to coincide with the content
	return Val{T: smt.MkSlice(arr, smt.IntLit(0), ln, ln), GoT: resT}
}

// ---- defers ------------------------------------------------------------------------

func (fc *FnCtx) runDefers(st *State, g *smt.Term, where string) {
	for i := len(fc.defers) - 1; i >= 0; i-- {
		d := fc.defers[i]
		c := &d.instr.Call
		// guard: the defer statement was executed on this path
		dg := smt.And(g, d.guard)
		// run the call on a copy of the state and merge
		before := st.clone()
		saveReach := fc.curReach
		fc.curReach = dg
		if fn := fc.deferTarget(d); fn != nil && fn.Parent() == fc.Fn && (fc.P.Contract[fc.nameOfFn(fn)] == nil || fc.contractSpeaksOfCaptured(fc.P.Contract[fc.nameOfFn(fn)], fn)) {
			// a deferred closure of this very function is inlined: without a contract,
			// and also when its contract speaks of the captured variables (the modular
			// call rule knows parameters only; the closure's own contract is still
			// proved on its body, and its captured-variable requires at MakeClosure)
			res := fc.inlineClosure(fn, d.fnVal, st, dg, nil)
			for _, e := range res.panics {
				fc.checkPanicEnsures(st, e.guard, e.val, where)
			}
		} else {
			fc.deferredCall(d, c, st, dg, fc.pos(d.instr.Pos()))
		}
		fc.curReach = saveReach
		// merge: st = ite(d.guard, st, before)
		for _, k := range smt.SortedKeys(st.H) {
			a := st.H[k]
			b, ok := before.H[k]
			if !ok {
				b = fc.getHeap(before, k, "")
			}
			if a != b {
				st.H[k] = fc.S.Define("Hd_"+k, smt.Ite(d.guard, a, b))
			}
		}
	}
}

// contractSpeaksOfCaptured: a requires/ensures clause of the closure's contract
// names one of its captured variables.
func (fc *FnCtx) contractSpeaksOfCaptured(cs *spec.FuncSpec, fn *ssa.Function) bool {
	free := map[string]bool{}
	for _, fv := range fn.FreeVars {
		free[fv.Name()] = true
	}
	for _, p := range cs.Params {
		delete(free, p)
	}
	found := false
	see := func(y spec.Expr) {
		if id, ok := y.(*spec.Ident); ok && free[id.Name] {
			found = true
		}
	}
	for _, c := range cs.Requires {
		walk(c.E, see)
	}
	for _, c := range cs.Ensures {
		walk(c.E, see)
	}
	return found
}

func (fc *FnCtx) deferredCall(d deferRec, c *ssa.CallCommon, st *State, g *smt.Term, where string) {
	if b, ok := c.Value.(*ssa.Builtin); ok {
		_ = b
		fc.abstr("deferred builtin " + b.Name())
		return
	}
	var args []Val
	var name string
	var fn *ssa.Function
	if c.IsInvoke() {
		args = append(args, d.fnVal)
		name = fc.P.TypeStr(c.Value.Type(), nil) + "." + c.Method.Name()
	} else {
		if f := c.StaticCallee(); f != nil {
			fn = f
		} else if d.fnVal.Clo != nil {
			fn = d.fnVal.Clo.Fn
		}
		if fn != nil {
			name = fc.nameOfFn(fn)
		} else {
			name = fc.funcValueName(c.Value)
		}
	}
	args = append(args, d.args...)
	resT := c.Signature().Results()
	var res Val
	if fc.special(name, c, args, resT, st, g, where, &res) {
		return
	}
	if cs := fc.P.Contract[name]; cs != nil {
		// a deferred call is a site of its own kind: "defer <callee>", numbered in the
		// order the deferred calls run (clauses: called("defer f", k), assert@call(defer f))
		dn := "defer " + name
		fc.callOrd[dn]++
		key := fmt.Sprintf("%s#%d", dn, fc.callOrd[dn])
		fc.callGuard[key] = g
		if !fc.dry {
			fc.callAsserts(dn, fc.callOrd[dn], true, args, nil, c, d.instr, st, g, where)
		}
		fc.callRes[key] = fc.applyContract(cs, name, args, resT, st, g, where)
		return
	}
	if fn != nil && fn.Parent() == fc.Fn && fc.inlineDeferred(fn, d, st, g, where) {
		return
	}
	fc.uncontracted(name, fn, args, resT, st, g, where)
}

// inlineDeferred is the hook for the panic model (deferred closures are the one
// place a body is inlined); implemented in panic.go.
func (fc *FnCtx) inlineDeferred(fn *ssa.Function, d deferRec, st *State, g *smt.Term, where string) bool {
	return false
}

// ---- frame ----------------------------------------------------------------------------

// frameCheck proves that on return every heap location not named in the
// assigns clause (and not freshly allocated by this function) is unchanged.
func (fc *FnCtx) frameCheck(vars map[string]Val, st *State, g *smt.Term, where string) {
	if fc.C == nil || fc.C.Trusted {
		return
	}
	allowed := map[string][]*smt.Term{}
	whole := map[string]bool{}
	for _, a := range fc.C.Assigns {
		ec := &evalCtx{fc: fc, vars: vars, cur: fc.entry, old: fc.entry}
		if fkeys, fref, _, isFields := ec.fieldLocations(a); isFields {
			for _, k := range fkeys {
				allowed[k] = append(allowed[k], fref)
			}
			continue
		}
		key, ref, _ := ec.location(a)
		if key == "*" {
			return
		}
		if ref == nil {
			whole[key] = true
		} else {
			allowed[key] = append(allowed[key], ref)
		}
	}
	for _, k := range smt.SortedKeys(st.H) {
		if whole[k] {
			continue
		}
		now := fc.S.Name("fr1", st.H[k])
		was, ok := fc.entry.H[k]
		if !ok {
			// never read at entry: create the entry symbol lazily only if now differs from "unknown"
			continue
		}
		if now == was || st.H[k] == was {
			continue
		}
		r := smt.Const("r!f", smt.Int)
		conds := []*smt.Term{smt.Ge(r, smt.IntLit(0))}
		if fc.guardKey(k) == "ghost:none" {
			continue // scratch ghost state of pooled objects: never framed
		}
		if gk := fc.guardKey(k); gk != "" {
			neg := false
			if strings.HasPrefix(gk, "ghost:!") {
				neg = true
				gk = "ghost:" + gk[len("ghost:!"):]
			}
			var gt *smt.Term
			if g0, ok := fc.entry.H[gk]; ok {
				gt = smt.Select(g0, r)
			} else {
				gt = smt.Select(fc.getHeap(fc.entry, gk, smt.Bool), r)
			}
			if neg {
				gt = smt.Not(gt)
			}
			conds = append(conds, gt)
		}
		for _, a := range allowed[k] {
			conds = append(conds, smt.Neq(r, a))
		}
		body := smt.Implies(smt.And(conds...), smt.Eq(smt.Select(now, r), smt.Select(was, r)))
		fc.oblige("frame", k, nil, g, smt.Forall([]*smt.Term{r}, body, []*smt.Term{smt.Select(now, r)}), where, "assigns")
	}
}

// globalFacts: sentinels are distinct positive references (by construction:
// literals), nothing else to assert at the moment.
func (fc *FnCtx) globalFacts() {}

// guardKey returns the heap key of the ownership ghost guarding key k ("" if none).
func (fc *FnCtx) guardKey(k string) string {
	if len(k) < 7 || k[:6] != "ghost:" {
		return ""
	}
	g, ok := fc.P.Ghost[k[6:]]
	if !ok || g.Guard == "" {
		return ""
	}
	return "ghost:" + g.Guard
}

// ownershipHavoc: a (non-trusted) callee proves its frame only for objects
// whose guard held at the call; everything else under a guarded ghost field is
// unknown afterwards.
func (fc *FnCtx) ownershipHavoc(pre, st *State) {
	for _, k := range smt.SortedKeys(fc.heapSorts) {
		gk := fc.guardKey(k)
		if gk == "" {
			continue
		}
		if gk == "ghost:none" {
			fc.havocKey(st, k)
			continue
		}
		hs := fc.heapSorts[k]
		_, vs, _ := smt.ArrParts(hs)
		mid := fc.getHeap(st, k, vs)
		neg := false
		if strings.HasPrefix(gk, "ghost:!") {
			neg = true
			gk = "ghost:" + gk[len("ghost:!"):]
		}
		g0 := fc.S.Name("g0", fc.getHeap(pre, gk, smt.Bool))
		nw := fc.S.Fresh("Ho_"+k, hs)
		r := smt.Const("r!o", smt.Int)
		cond := smt.Select(g0, r)
		if neg {
			cond = smt.Not(cond)
		}
		fc.S.Assert(smt.Forall([]*smt.Term{r}, smt.Implies(cond, smt.Eq(smt.Select(nw, r), smt.Select(mid, r))), []*smt.Term{smt.Select(nw, r)}), "ownership frame of "+k)
		st.H[k] = nw
		if fc.dry && fc.curBlock != nil {
			m := fc.written[fc.curBlock]
			if m == nil {
				m = map[string]bool{}
				fc.written[fc.curBlock] = m
			}
			m[k] = true
		}
	}
}

// callOrdinals numbers the call sites of each callee in source order (by
// position), so that assert@call(callee#k) does not depend on the order in
// which the generator visits blocks.
func (fc *FnCtx) callOrdinals() {
	fc.staticOrd = map[ssa.Instruction]int{}
	fc.staticName = map[ssa.Instruction]string{}
	type site struct {
		in   ssa.Instruction
		name string
		pos  int
		seq  int
	}
	var sites []site
	n := 0
	for _, b := range fc.Fn.Blocks {
		for _, in := range b.Instrs {
			c, ok := in.(*ssa.Call)
			if !ok {
				continue
			}
			var name string
			switch {
			case c.Call.IsInvoke():
				name = fc.P.TypeStr(c.Call.Value.Type(), nil) + "." + c.Call.Method.Name()
			case c.Call.StaticCallee() != nil:
				name = fc.nameOfFn(c.Call.StaticCallee())
			default:
				if _, isB := c.Call.Value.(*ssa.Builtin); isB {
					continue
				}
				name = fc.funcValueName(c.Call.Value)
			}
			n++
			sites = append(sites, site{in, name, int(in.Pos()), n})
		}
	}
	sort.SliceStable(sites, func(i, j int) bool {
		if sites[i].pos != sites[j].pos {
			return sites[i].pos < sites[j].pos
		}
		return sites[i].seq < sites[j].seq
	})
	cnt := map[string]int{}
	for _, s := range sites {
		cnt[s.name]++
		fc.staticOrd[s.in] = cnt[s.name]
		fc.staticName[s.in] = s.name
	}
}

// markEscaped records that a freshly allocated object is now visible to other code.
func (fc *FnCtx) markEscaped(v Val) {
	if v.T != nil {
		if k, ok := freshRefKey(v.T); ok {
			fc.escaped[k] = true
		}
		if v.T.Op == "mkslice" {
			if k, ok := freshRefKey(v.T.Args[0]); ok {
				fc.escaped[k] = true
			}
		}
	}
	if v.Loc != nil && v.Loc.Base != nil {
		if k, ok := freshRefKey(v.Loc.Base); ok {
			fc.escaped[k] = true
		}
	}
	for _, f := range v.Fs {
		fc.markEscaped(f)
	}
	if v.Clo != nil {
		for _, b := range v.Clo.Bindings {
			fc.markEscaped(b)
		}
	}
}

// mentionsCalleeInternals: does a clause refer to the call sites inside the
// function it belongs to? Such clauses are proved for the function but are not
// part of what its callers may assume.
func mentionsCalleeInternals(e spec.Expr) bool {
	found := false
	walk(e, func(x spec.Expr) {
		if c, ok := x.(*spec.Call); ok {
			switch c.Fun {
			case "callres", "callresb", "called", "panicked", "panicval":
				found = true
			}
		}
	})
	return found
}

// existsNow: a reference (or the backing array of a slice) that a callee wrote
// into heap key k refers to an object that exists now: it is not one of the
// objects this function allocates later (those get smaller numbers).
func (fc *FnCtx) existsNow(v *smt.Term, k string) {
	var lowest *smt.Term
	if fc.refBase == nil {
		lowest = smt.IntLit(int64(-fc.nextRef))
	} else {
		lowest = smt.App("+", smt.Int, fc.refBase, smt.IntLit(int64(-fc.nextRef)))
	}
	switch {
	case v.Sort == smt.Slice:
		fc.S.Assert(smt.Ge(smt.SlArr(v), lowest), "a slice written by a callee refers to an array that exists now")
	case v.Sort == smt.Int && fc.refValuedKey(k):
		fc.S.Assert(smt.Ge(v, lowest), "a reference written by a callee refers to an object that exists now")
	}
}

const (
	resliceNone = iota
	resliceLocal
	resliceForeign
)

// reslicedOrigin reports whether v may be (a later version of) a re-slice
// x[a:b] of another slice x: the result of an ssa.Slice on a slice-typed
// operand, or a phi / append / re-slice of one. Full slice expressions
// x[a:b:b] are exempt (no spare capacity beyond b to write into on the first
// append, and the reallocated result no longer shares x's array). The origin
// is local when x was allocated by this function (make / composite literal),
// foreign otherwise (parameter, field, call result, ...).
func (fc *FnCtx) reslicedOrigin(v ssa.Value) int {
	fn := v.Parent()
	if fn == nil {
		return resliceNone
	}
	if fc.resliced == nil {
		fc.resliced = map[ssa.Value]int{}
		fc.reslicedDone = map[*ssa.Function]bool{}
	}
	if !fc.reslicedDone[fn] {
		fc.reslicedDone[fn] = true
		var localRoot func(x ssa.Value, depth int) bool
		localRoot = func(x ssa.Value, depth int) bool {
			if depth > 20 {
				return false
			}
			switch y := x.(type) {
			case *ssa.MakeSlice:
				return true
			case *ssa.Slice:
				if _, isPtr := y.X.Type().Underlying().(*types.Pointer); isPtr {
					_, isAlloc := y.X.(*ssa.Alloc)
					return isAlloc
				}
				return localRoot(y.X, depth+1)
			case *ssa.Phi:
				for _, e := range y.Edges {
					if e == x {
						continue
					}
					if !localRoot(e, depth+1) {
						return false
					}
				}
				return true
			case *ssa.Call:
				if b, ok := y.Call.Value.(*ssa.Builtin); ok && b.Name() == "append" {
					return localRoot(y.Call.Args[0], depth+1)
				}
			case *ssa.Const:
				return true // nil slice
			}
			return false
		}
		for _, b := range fn.Blocks {
			for _, in := range b.Instrs {
				sl, ok := in.(*ssa.Slice)
				if !ok {
					continue
				}
				if _, isSlice := sl.X.Type().Underlying().(*types.Slice); !isSlice {
					continue
				}
				if sl.Max != nil && sl.Max == sl.High {
					continue
				}
				if localRoot(sl.X, 0) {
					fc.resliced[sl] = resliceLocal
				} else {
					fc.resliced[sl] = resliceForeign
				}
			}
		}
		for changed := true; changed; {
			changed = false
			mark := func(dst ssa.Value, k int) {
				if k != resliceNone && fc.resliced[dst] < k {
					fc.resliced[dst] = k
					changed = true
				}
			}
			for _, b := range fn.Blocks {
				for _, in := range b.Instrs {
					switch y := in.(type) {
					case *ssa.Phi:
						for _, e := range y.Edges {
							mark(y, fc.resliced[e])
						}
					case *ssa.Slice:
						if y.Max != nil && y.Max == y.High {
							continue
						}
						mark(y, fc.resliced[y.X])
					case *ssa.Call:
						if bi, ok := y.Call.Value.(*ssa.Builtin); ok && bi.Name() == "append" {
							mark(y, fc.resliced[y.Call.Args[0]])
						}
					}
				}
			}
		}
	}
	return fc.resliced[v]
}

func hasOwnTag(tags []string) bool {
	for _, t := range tags {
		if t == "own" {
			return true
		}
	}
	return false
}
