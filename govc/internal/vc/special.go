package vc

import (
	"fmt"
	"os"
	"go/types"
	"strings"

	"golang.org/x/tools/go/ssa"

	"govc/internal/smt"
)

type boxInfo struct {
	v  Val
	ty types.Type
}

// varargs resolves the elements of a []any argument built at the call site.
func (fc *FnCtx) varargs(st *State, sl Val) ([]boxInfo, bool) {
	t := fc.term(sl)
	n, ok := smt.SlLen(t).IsIntLit()
	if !ok {
		return nil, false
	}
	seq := fc.seqOfSlice(st, t)
	var out []boxInfo
	for i := int64(0); i < n; i++ {
		el := fc.S.Resolve(smt.SAt(seq, smt.IntLit(i)), 12)
		bi, ok := fc.boxes[el.String()]
		if !ok {
			if os.Getenv("GOVC_DEBUG_VARARGS") != "" {
				fmt.Fprintf(os.Stderr, "varargs: element %d of %d unresolved: %s\n", i, n, el)
			}
			return nil, false
		}
		out = append(out, bi)
	}
	return out, true
}

func (fc *FnCtx) literalOf(t *smt.Term) (string, bool) {
	if t == smt.SEmpty {
		return "", true
	}
	for lit, c := range fc.strLits {
		if c == t || c.Op == t.Op {
			return lit, true
		}
	}
	return "", false
}

type fmtSeg struct {
	lit  string
	verb string // "" for literal
	arg  int
}

func parseFormat(f string) ([]fmtSeg, bool) {
	var segs []fmtSeg
	arg := 0
	lit := ""
	for i := 0; i < len(f); i++ {
		if f[i] != '%' {
			lit += string(f[i])
			continue
		}
		j := i + 1
		if j < len(f) && f[j] == '%' {
			lit += "%"
			i = j
			continue
		}
		for j < len(f) && strings.ContainsRune("+-# 0123456789.", rune(f[j])) {
			j++
		}
		if j >= len(f) {
			return nil, false
		}
		if lit != "" {
			segs = append(segs, fmtSeg{lit: lit})
			lit = ""
		}
		segs = append(segs, fmtSeg{verb: f[i+1 : j+1], arg: arg})
		arg++
		i = j
	}
	if lit != "" {
		segs = append(segs, fmtSeg{lit: lit})
	}
	return segs, true
}

// sprintf gives fmt.Sprintf / fmt.Errorf with a constant format its literal
// meaning for the verbs %d (integers), %s / %v (strings) and %02X (bytes).
// Anything else leaves that piece (and hence the result) unconstrained.
func (fc *FnCtx) sprintf(format string, args []boxInfo) (*smt.Term, bool) {
	segs, ok := parseFormat(format)
	if !ok {
		return nil, false
	}
	res := smt.SEmpty
	for _, s := range segs {
		if s.verb == "" {
			res = smt.SCat(res, fc.strLit(s.lit))
			continue
		}
		if s.arg >= len(args) {
			return nil, false
		}
		a := args[s.arg]
		var piece *smt.Term
		switch {
		case s.verb == "d" && kindOf(a.ty) == KInt && a.v.T != nil && !hasStringMethod(a.ty):
			piece = fc.specApp("dec", smt.Seq, a.v.T)
		case (s.verb == "s" || s.verb == "v") && kindOf(a.ty) == KStr && a.v.T != nil && !hasStringMethod(a.ty):
			piece = a.v.T
		case s.verb == "02X" && kindOf(a.ty) == KInt && a.v.T != nil:
			piece = fc.specApp("hex2", smt.Seq, a.v.T)
		default:
			return nil, false
		}
		res = smt.SCat(res, piece)
	}
	fc.Used["fmt format \""+format+"\" given its literal meaning (trusted)"] = true
	return res, true
}

func hasStringMethod(t types.Type) bool {
	ms := types.NewMethodSet(t)
	for i := 0; i < ms.Len(); i++ {
		n := ms.At(i).Obj().Name()
		if n == "String" || n == "Error" || n == "Format" {
			return true
		}
	}
	return false
}

func (fc *FnCtx) specApp(name string, rs smt.Sort, args ...*smt.Term) *smt.Term {
	sf, ok := fc.P.SpecFn[name]
	if !ok {
		fc.refuse("spec function %s needed by the engine is not declared", name)
	}
	fc.declareSpecFn(sf)
	return smt.App("sf!"+name, rs, args...)
}

// special handles callees whose meaning is built into the engine.
func (fc *FnCtx) special(name string, c *ssa.CallCommon, args []Val, resT types.Type, st *State, g *smt.Term, where string, res *Val) bool {
	switch name {
	case "fmt.Sprintf":
		if len(args) != 2 {
			return false
		}
		lit, ok := fc.literalOf(fc.term(args[0]))
		if !ok {
			return false
		}
		boxes, ok := fc.varargs(st, args[1])
		if !ok {
			return false
		}
		// %d of a type with a String method would call it; Code has one but %d prints the number.
		t, ok := fc.sprintfLoose(lit, boxes)
		if !ok {
			return false
		}
		r := fc.S.Define("sprintf", t)
		fc.byteFactsIfNeeded(r)
		*res = Val{T: r, GoT: resT}
		return true
	}
	return false
}

// sprintfLoose: %d and %02X ignore String methods (fmt only consults them for %v/%s).
func (fc *FnCtx) sprintfLoose(format string, args []boxInfo) (*smt.Term, bool) {
	segs, ok := parseFormat(format)
	if !ok {
		return nil, false
	}
	res := smt.SEmpty
	for _, s := range segs {
		if s.verb == "" {
			res = smt.SCat(res, fc.strLit(s.lit))
			continue
		}
		if s.arg >= len(args) {
			return nil, false
		}
		a := args[s.arg]
		var piece *smt.Term
		switch {
		case s.verb == "d" && kindOf(a.ty) == KInt && a.v.T != nil:
			piece = fc.specApp("dec", smt.Seq, a.v.T)
		case (s.verb == "s" || s.verb == "v") && kindOf(a.ty) == KStr && a.v.T != nil && !hasStringMethod(a.ty):
			piece = a.v.T
		case s.verb == "02X" && kindOf(a.ty) == KInt && a.v.T != nil:
			piece = fc.specApp("hex2", smt.Seq, a.v.T)
		default:
			return nil, false
		}
		res = smt.SCat(res, piece)
	}
	fc.Used["fmt format \""+format+"\" given its literal meaning (trusted)"] = true
	return res, true
}

func (fc *FnCtx) byteFactsIfNeeded(t *smt.Term) {}
