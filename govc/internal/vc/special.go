package vc

import (
	"fmt"
	"os"
	"go/types"
	"strings"

	"golang.org/x/tools/go/ssa"

	"govc/internal/smt"
)

type boxInfo struct {
	v  Val
	ty types.Type
}

// varargs resolves the elements of a []any argument built at the call site.
func (fc *FnCtx) varargs(st *State, sl Val) ([]boxInfo, bool) {
	t := fc.term(sl)
	n, ok := smt.SlLen(t).IsIntLit()
	if !ok {
		return nil, false
	}
	seq := fc.seqOfSlice(st, t)
	var out []boxInfo
	for i := int64(0); i < n; i++ {
		el := fc.S.Resolve(smt.SAt(seq, smt.IntLit(i)), 12)
		bi, ok := fc.boxes[el.String()]
		if !ok {
			if os.Getenv("GOVC_DEBUG_VARARGS") != "" {
				fmt.Fprintf(os.Stderr, "varargs: element %d of %d unresolved: %s\n", i, n, el)
			}
			return nil, false
		}
		out = append(out, bi)
	}
	return out, true
}

func (fc *FnCtx) literalOf(t *smt.Term) (string, bool) {
	if t == smt.SEmpty {
		return "", true
	}
	for lit, c := range fc.strLits {
		if c == t || c.Op == t.Op {
			return lit, true
		}
	}
	return "", false
}

type fmtSeg struct {
	lit  string
	verb string // "" for literal
	arg  int
}

func parseFormat(f string) ([]fmtSeg, bool) {
	var segs []fmtSeg
	arg := 0
	lit := ""
	for i := 0; i < len(f); i++ {
		if f[i] != '%' {
			lit += string(f[i])
			continue
		}
		j := i + 1
		if j < len(f) && f[j] == '%' {
			lit += "%"
			i = j
			continue
		}
		for j < len(f) && strings.ContainsRune("+-# 0123456789.", rune(f[j])) {
			j++
		}
		if j >= len(f) {
			return nil, false
		}
		if lit != "" {
			segs = append(segs, fmtSeg{lit: lit})
			lit = ""
		}
		segs = append(segs, fmtSeg{verb: f[i+1 : j+1], arg: arg})
		arg++
		i = j
	}
	if lit != "" {
		segs = append(segs, fmtSeg{lit: lit})
	}
	return segs, true
}

// sprintf gives fmt.Sprintf / fmt.Errorf with a constant format its literal
// meaning for the verbs %d (integers), %s / %v (strings) and %02X (bytes).
// Anything else leaves that piece (and hence the result) unconstrained.
func (fc *FnCtx) sprintf(format string, args []boxInfo) (*smt.Term, bool) {
	segs, ok := parseFormat(format)
	if !ok {
		return nil, false
	}
	res := smt.SEmpty
	for _, s := range segs {
		if s.verb == "" {
			res = smt.SCat(res, fc.strLit(s.lit))
			continue
		}
		if s.arg >= len(args) {
			return nil, false
		}
		a := args[s.arg]
		var piece *smt.Term
		switch {
		case s.verb == "d" && kindOf(a.ty) == KInt && a.v.T != nil && !hasStringMethod(a.ty):
			piece = fc.specApp("dec", smt.Seq, a.v.T)
		case (s.verb == "s" || s.verb == "v") && kindOf(a.ty) == KStr && a.v.T != nil && !hasStringMethod(a.ty):
			piece = a.v.T
		case s.verb == "02X" && kindOf(a.ty) == KInt && a.v.T != nil:
			piece = fc.specApp("hex2", smt.Seq, a.v.T)
		default:
			return nil, false
		}
		res = smt.SCat(res, piece)
	}
	fc.Used["fmt format \""+format+"\" given its literal meaning (trusted)"] = true
	return res, true
}

func hasStringMethod(t types.Type) bool {
	ms := types.NewMethodSet(t)
	for i := 0; i < ms.Len(); i++ {
		n := ms.At(i).Obj().Name()
		if n == "String" || n == "Error" || n == "Format" {
			return true
		}
	}
	return false
}

func (fc *FnCtx) specApp(name string, rs smt.Sort, args ...*smt.Term) *smt.Term {
	sf, ok := fc.P.SpecFn[name]
	if !ok {
		fc.refuse("spec function %s needed by the engine is not declared", name)
	}
	fc.declareSpecFn(sf)
	return smt.App("sf!"+name, rs, args...)
}

// special handles callees whose meaning is built into the engine.
func (fc *FnCtx) special(name string, c *ssa.CallCommon, args []Val, resT types.Type, st *State, g *smt.Term, where string, res *Val) bool {
	switch name {
	case "sort.Strings":
		// sort.Strings reorders its argument in place. []string registers are
		// immutable values in this model, so the call is modelled by REBINDING the
		// argument's register to a permutation of its old value (trusted: "Strings
		// sorts a slice of strings in increasing order" - only "a permutation" is
		// used). That is sound only if no other register can see the same backing
		// array afterwards: every other []string register of the function is
		// poisoned (any later use is refused), and a call inside a loop is refused.
		if len(args) != 1 || len(c.Args) != 1 || args[0].T == nil || kindOf(c.Args[0].Type()) != KStrList {
			return false
		}
		for _, li := range fc.loops {
			if li != nil && fc.curBlock != nil && li.blocks[fc.curBlock] {
				fc.refuse("sort.Strings inside a loop: in-place mutation of a []string is modelled only outside loops")
			}
		}
		old := args[0].T
		nw := fc.S.Fresh("sorted", smt.SList)
		fwd := fc.S.FreshFun("perm", []smt.Sort{smt.Int}, smt.Int)
		inv := fc.S.FreshFun("perminv", []smt.Sort{smt.Int}, smt.Int)
		i := smt.Const("i!p", smt.Int)
		inb := func(t *smt.Term) *smt.Term { return smt.And(smt.Le(smt.IntLit(0), t), smt.Lt(t, smt.LLen(old))) }
		fi, ii := smt.App(fwd, smt.Int, i), smt.App(inv, smt.Int, i)
		fc.S.Assert(smt.Eq(smt.LLen(nw), smt.LLen(old)), "sort.Strings: same length")
		fc.S.Assert(smt.Forall([]*smt.Term{i}, smt.Implies(inb(i), smt.And(inb(fi), smt.Eq(smt.LAt(nw, i), smt.LAt(old, fi)), smt.Eq(smt.App(inv, smt.Int, fi), i))), []*smt.Term{smt.LAt(nw, i)}, []*smt.Term{fi}), "sort.Strings: every element of the result is an element of the argument")
		fc.S.Assert(smt.Forall([]*smt.Term{i}, smt.Implies(inb(i), smt.And(inb(ii), smt.Eq(smt.LAt(old, i), smt.LAt(nw, ii)), smt.Eq(smt.App(fwd, smt.Int, ii), i))), []*smt.Term{smt.LAt(old, i)}, []*smt.Term{ii}), "sort.Strings: every element of the argument is an element of the result")
		fc.Used["trusted: sort.Strings permutes its argument in place (\"Strings sorts a slice of strings in increasing order\"); modelled by rebinding the argument's register, all other []string registers of the function are unusable afterwards"] = true
		arg := c.Args[0]
		fc.vals[arg] = Val{T: fc.S.Name("aftersort", smt.Ite(g, nw, old)), GoT: args[0].GoT}
		if fc.poisoned != nil {
			fc.refuse("a second sort.Strings in one function is outside the supported subset")
		}
		fc.poisoned = map[ssa.Value]bool{}
		fc.poisonAt = fc.curBlock
		fc.poisonSuc = map[*ssa.BasicBlock]bool{}
		var walk func(b *ssa.BasicBlock)
		walk = func(b *ssa.BasicBlock) {
			for _, s := range b.Succs {
				if !fc.poisonSuc[s] {
					fc.poisonSuc[s] = true
					walk(s)
				}
			}
		}
		if fc.curBlock != nil {
			walk(fc.curBlock)
		}
		for _, b := range fc.Fn.Blocks {
			for _, in := range b.Instrs {
				if v, ok := in.(ssa.Value); ok && v != arg && kindOf(v.Type()) == KStrList {
					fc.poisoned[v] = true
				}
			}
		}
		for _, pv := range fc.Fn.Params {
			if pv != arg && kindOf(pv.Type()) == KStrList {
				fc.poisoned[pv] = true
			}
		}
		*res = Val{GoT: resT}
		return true
	case "fmt.Sprintf":
		if len(args) != 2 {
			return false
		}
		lit, ok := fc.literalOf(fc.term(args[0]))
		if !ok {
			return false
		}
		boxes, ok := fc.varargs(st, args[1])
		if !ok {
			return false
		}
		// %d of a type with a String method would call it; Code has one but %d prints the number.
		t, ok := fc.sprintfLoose(lit, boxes)
		if !ok {
			return false
		}
		r := fc.S.Define("sprintf", t)
		fc.byteFactsIfNeeded(r)
		*res = Val{T: r, GoT: resT}
		return true
	}
	return false
}

// sprintfLoose: %d and %02X ignore String methods (fmt only consults them for %v/%s).
func (fc *FnCtx) sprintfLoose(format string, args []boxInfo) (*smt.Term, bool) {
	segs, ok := parseFormat(format)
	if !ok {
		return nil, false
	}
	res := smt.SEmpty
	for _, s := range segs {
		if s.verb == "" {
			res = smt.SCat(res, fc.strLit(s.lit))
			continue
		}
		if s.arg >= len(args) {
			return nil, false
		}
		a := args[s.arg]
		var piece *smt.Term
		switch {
		case s.verb == "d" && kindOf(a.ty) == KInt && a.v.T != nil:
			piece = fc.specApp("dec", smt.Seq, a.v.T)
		case (s.verb == "s" || s.verb == "v") && kindOf(a.ty) == KStr && a.v.T != nil && !hasStringMethod(a.ty):
			piece = a.v.T
		case s.verb == "02X" && kindOf(a.ty) == KInt && a.v.T != nil:
			piece = fc.specApp("hex2", smt.Seq, a.v.T)
		default:
			return nil, false
		}
		res = smt.SCat(res, piece)
	}
	fc.Used["fmt format \""+format+"\" given its literal meaning (trusted)"] = true
	return res, true
}

func (fc *FnCtx) byteFactsIfNeeded(t *smt.Term) {}
