package vc

import (
	"fmt"
	"sort"
	"go/ast"
	"go/types"
	"strings"

	"golang.org/x/tools/go/packages"
	"golang.org/x/tools/go/ssa"

	"govc/internal/smt"
	"govc/internal/spec"
)

func (p *Program) GlobalInv(name string) *spec.GlobalInv {
	for _, g := range p.Spec.GlobalInvs {
		if g.Name == name {
			return g
		}
	}
	return nil
}

func (p *Program) isConstTable(name string) bool {
	for _, n := range p.Spec.ConstTables {
		if n == name {
			return true
		}
	}
	return false
}

// constTable reads the composite-literal initialiser of a package-level slice
// of structs from the source: rows of constant field values.
func (p *Program) constTable(name string) (rows [][]string, st *types.Struct, err error) {
	for _, pk := range p.SrcPkgs {
		if pk.Types != p.Root.Pkg {
			continue
		}
		for _, f := range pk.Syntax {
			for _, d := range f.Decls {
				gd, ok := d.(*ast.GenDecl)
				if !ok {
					continue
				}
				for _, sp := range gd.Specs {
					vs, ok := sp.(*ast.ValueSpec)
					if !ok {
						continue
					}
					for i, id := range vs.Names {
						if id.Name != name || i >= len(vs.Values) {
							continue
						}
						cl, ok := vs.Values[i].(*ast.CompositeLit)
						if !ok {
							return nil, nil, fmt.Errorf("consttable %s: initialiser is not a composite literal", name)
						}
						sl, ok := pk.TypesInfo.TypeOf(cl).Underlying().(*types.Slice)
						if !ok {
							return nil, nil, fmt.Errorf("consttable %s: not a slice", name)
						}
						st, ok = sl.Elem().Underlying().(*types.Struct)
						if !ok {
							return nil, nil, fmt.Errorf("consttable %s: elements are not structs", name)
						}
						for _, el := range cl.Elts {
							ecl, ok := el.(*ast.CompositeLit)
							if !ok || len(ecl.Elts) != st.NumFields() {
								return nil, nil, fmt.Errorf("consttable %s: unsupported element form", name)
							}
							var row []string
							for _, fe := range ecl.Elts {
								if _, keyed := fe.(*ast.KeyValueExpr); keyed {
									return nil, nil, fmt.Errorf("consttable %s: keyed fields unsupported", name)
								}
								tv := pk.TypesInfo.Types[fe]
								if tv.Value == nil {
									return nil, nil, fmt.Errorf("consttable %s: non-constant field", name)
								}
								row = append(row, tv.Value.ExactString())
							}
							rows = append(rows, row)
						}
						return rows, st, nil
					}
				}
			}
		}
	}
	return nil, nil, fmt.Errorf("consttable %s: variable not found", name)
}

func (fc *FnCtx) elemRef(arr, idx *smt.Term) *smt.Term {
	if !fc.S.Declared("elemref") {
		fc.S.DeclareFun("elemref", []smt.Sort{smt.Int, smt.Int}, smt.Int)
		a, i := smt.Const("a!e", smt.Int), smt.Const("i!e", smt.Int)
		er := smt.App("elemref", smt.Int, a, i)
		fc.S.Assert(smt.Forall([]*smt.Term{a, i}, smt.Gt(er, smt.IntLit(0)), []*smt.Term{er}), "element references are non-nil, existing objects")
	}
	return smt.App("elemref", smt.Int, arr, idx)
}

// constTableVal is the value of a consttable global: a slice over a fixed
// backing array whose element structs hold the constants read from the source.
func (fc *FnCtx) constTableVal(name string, ty types.Type, st *State) Val {
	if v, ok := fc.ctVals[name]; ok {
		return v
	}
	rows, stt, err := fc.P.constTable(name)
	if err != nil {
		fc.refuse("%v", err)
	}
	id := int64(2000000)
	for i, n := range fc.P.Spec.ConstTables {
		if n == name {
			id += int64(i)
		}
	}
	arr := smt.IntLit(id)
	n := smt.IntLit(int64(len(rows)))
	sl := ty.Underlying().(*types.Slice)
	for j, row := range rows {
		ref := fc.elemRef(arr, smt.IntLit(int64(j)))
		for f := 0; f < stt.NumFields(); f++ {
			key, ft := fc.fieldKey(sl.Elem(), f)
			if kindOf(ft) != KInt {
				fc.refuse("consttable %s: field %s is not an integer", name, stt.Field(f).Name())
			}
			h0 := fc.getHeap(fc.entry, key, smt.Int)
			fc.S.Assert(smt.Eq(smt.Select(h0, ref), smt.BigLit(row[f])), fmt.Sprintf("source: %s[%d].%s", name, j, stt.Field(f).Name()))
		}
	}
	fc.Used["constant table "+name+": values read from its composite literal in the source; immutability checked by a scan of all stores"] = true
	v := Val{T: smt.MkSlice(arr, smt.IntLit(0), n, n), GoT: ty}
	fc.ctVals[name] = v
	return v
}

// assumeGlobalInv assumes a global invariant at function entry.
func (fc *FnCtx) assumeGlobalInv(name string, st *State) bool {
	gi := fc.P.GlobalInv(name)
	if gi == nil {
		return false
	}
	ec := &evalCtx{fc: fc, vars: map[string]Val{}, cur: st, old: st}
	fc.S.Assert(ec.boolean(gi.E), "global invariant "+name+" (established by init, globals immutable by scan)")
	fc.Used["global invariant "+name+" (proved as a postcondition of the init function; the globals it mentions are never written elsewhere: mechanical scan)"] = true
	return true
}

// ImmutableScan checks that a package-level variable is never stored to, and
// the object it holds never modified, outside the package's init functions.
func (p *Program) ImmutableScan(name string) []string {
	var bad []string
	var g *ssa.Global
	for _, m := range p.Root.Members {
		if gg, ok := m.(*ssa.Global); ok && gg.Name() == name {
			g = gg
		}
	}
	if g == nil {
		return []string{"no such global " + name}
	}
	for fname, fn := range p.Funcs {
		if p.FuncPkg[fn] != p.Root {
			continue
		}
		if fname == "init" || strings.HasPrefix(fname, "init#") {
			continue
		}
		for _, b := range fn.Blocks {
			for _, in := range b.Instrs {
				if st, ok := in.(*ssa.Store); ok && st.Addr == g {
					bad = append(bad, fmt.Sprintf("%s stores to %s", fname, name))
				}
				u, ok := in.(*ssa.UnOp)
				if !ok || u.X != g {
					continue
				}
				bad = append(bad, p.readOnlyUses(u, fname, name, 0)...)
			}
		}
	}
	return bad
}

func (p *Program) readOnlyUses(v ssa.Value, fname, name string, depth int) []string {
	var bad []string
	refs := v.Referrers()
	if refs == nil {
		return nil
	}
	for _, r := range *refs {
		switch x := r.(type) {
		case *ssa.DebugRef, *ssa.Lookup, *ssa.Range, *ssa.Index:
		case *ssa.IndexAddr:
			bad = append(bad, p.readOnlyAddr(x, fname, name)...)
		case *ssa.Call:
			if b, ok := x.Call.Value.(*ssa.Builtin); ok && (b.Name() == "len" || b.Name() == "cap") {
				continue
			}
			bad = append(bad, fmt.Sprintf("%s passes %s to a call", fname, name))
		case *ssa.Phi:
			if depth < 3 {
				bad = append(bad, p.readOnlyUses(x, fname, name, depth+1)...)
			}
		default:
			bad = append(bad, fmt.Sprintf("%s uses %s in %T", fname, name, r))
		}
	}
	return bad
}

func (p *Program) readOnlyAddr(a ssa.Value, fname, name string) []string {
	var bad []string
	refs := a.Referrers()
	if refs == nil {
		return nil
	}
	for _, r := range *refs {
		switch x := r.(type) {
		case *ssa.DebugRef:
		case *ssa.UnOp: // load
		case *ssa.FieldAddr:
			bad = append(bad, p.readOnlyAddr(x, fname, name)...)
		default:
			_ = x
			bad = append(bad, fmt.Sprintf("%s may write through an element of %s (%T)", fname, name, r))
		}
	}
	return bad
}

var _ = packages.NeedName

// initIsEmptyMake reports whether the package-level variable name is
// initialised by `make(map[K]V)` (no size, no elements).
func (p *Program) initIsEmptyMake(name string) bool {
	for _, pk := range p.SrcPkgs {
		if pk.Types != p.Root.Pkg {
			continue
		}
		for _, f := range pk.Syntax {
			for _, d := range f.Decls {
				gd, ok := d.(*ast.GenDecl)
				if !ok {
					continue
				}
				for _, sp := range gd.Specs {
					vs, ok := sp.(*ast.ValueSpec)
					if !ok {
						continue
					}
					for i, id := range vs.Names {
						if id.Name != name || i >= len(vs.Values) {
							continue
						}
						call, ok := vs.Values[i].(*ast.CallExpr)
						if !ok || len(call.Args) != 1 {
							return false
						}
						fn, ok := call.Fun.(*ast.Ident)
						if !ok || fn.Name != "make" {
							return false
						}
						_, isMap := call.Args[0].(*ast.MapType)
						return isMap
					}
				}
			}
		}
	}
	return false
}

// OnlyCalledFromScan checks that a function-valued struct field ("field:T.f")
// is loaded only in the named function (so only that function can call it).
func (p *Program) OnlyCalledFromScan(callee, caller string) []string {
	var bad []string
	if !strings.HasPrefix(callee, "field:") {
		return []string{"onlycalledfrom: unsupported callee form " + callee}
	}
	want := callee[len("field:"):]
	for fname, fn := range p.Funcs {
		for _, b := range fn.Blocks {
			for _, in := range b.Instrs {
				fa, ok := in.(*ssa.FieldAddr)
				if !ok {
					continue
				}
				pt, ok := fa.X.Type().Underlying().(*types.Pointer)
				if !ok {
					continue
				}
				st, ok := pt.Elem().Underlying().(*types.Struct)
				if !ok {
					continue
				}
				key := p.TypeStr(pt.Elem(), nil) + "." + st.Field(fa.Field).Name()
				if key != want {
					continue
				}
				// loads of the field (stores happen in constructors)
				if refs := fa.Referrers(); refs != nil {
					for _, r := range *refs {
						if u, ok := r.(*ssa.UnOp); ok && u.X == fa && fname != caller {
							bad = append(bad, fmt.Sprintf("%s reads %s", fname, want))
						}
					}
				}
			}
		}
	}
	return bad
}

func (p *Program) isConstField(key string) bool {
	for _, f := range p.Spec.ConstFields {
		if f == key {
			return true
		}
	}
	return false
}

// ConstFieldScan: every store to the field targets an object allocated in the
// same function (a constructor initialising a fresh value).
func (p *Program) ConstFieldScan(key string) []string {
	var bad []string
	for fname, fn := range p.Funcs {
		for _, b := range fn.Blocks {
			for _, in := range b.Instrs {
				st, ok := in.(*ssa.Store)
				if !ok {
					continue
				}
				fa, ok := st.Addr.(*ssa.FieldAddr)
				if !ok {
					continue
				}
				pt, ok := fa.X.Type().Underlying().(*types.Pointer)
				if !ok {
					continue
				}
				stt, ok := pt.Elem().Underlying().(*types.Struct)
				if !ok {
					continue
				}
				if p.TypeStr(pt.Elem(), nil)+"."+stt.Field(fa.Field).Name() != key {
					continue
				}
				if _, isAlloc := fa.X.(*ssa.Alloc); !isAlloc {
					bad = append(bad, fmt.Sprintf("%s stores to %s of an existing object", fname, key))
				}
			}
		}
	}
	return bad
}

// AllocOnlyInScan: objects of the named struct type are allocated only in ctor.
func (p *Program) AllocOnlyInScan(typeName, ctor string) []string {
	want := p.goTypeByName(typeName)
	if want == nil {
		return []string{"unknown type " + typeName}
	}
	var bad []string
	for fname, fn := range p.Funcs {
		if fname == ctor {
			continue
		}
		for _, b := range fn.Blocks {
			for _, in := range b.Instrs {
				if a, ok := in.(*ssa.Alloc); ok && types.Identical(a.Type(), want) {
					bad = append(bad, fmt.Sprintf("%s allocates %s", fname, typeName))
				}
			}
		}
	}
	return bad
}

// StoredOnlyInScan: stores to the struct field key occur only in the listed functions.
func (p *Program) StoredOnlyInScan(key string, allowed []string) []string {
	var bad []string
	ok := map[string]bool{}
	for _, a := range allowed {
		ok[a] = true
	}
	for fname, fn := range p.Funcs {
		if ok[fname] {
			continue
		}
		for _, b := range fn.Blocks {
			for _, in := range b.Instrs {
				st, isStore := in.(*ssa.Store)
				if !isStore {
					continue
				}
				fa, isFA := st.Addr.(*ssa.FieldAddr)
				if !isFA {
					continue
				}
				pt, isP := fa.X.Type().Underlying().(*types.Pointer)
				if !isP {
					continue
				}
				stt, isS := pt.Elem().Underlying().(*types.Struct)
				if !isS {
					continue
				}
				if p.TypeStr(pt.Elem(), nil)+"."+stt.Field(fa.Field).Name() == key {
					bad = append(bad, fmt.Sprintf("%s stores to %s", fname, key))
				}
			}
		}
	}
	return bad
}

// FieldIsScan: every store to the function-valued struct field key, anywhere in
// the verified packages, stores the named top-level function (so a call
// through the field is a call of that function).
func (p *Program) FieldIsScan(key, target string) []string {
	var bad []string
	for fname, fn := range p.Funcs {
		for _, b := range fn.Blocks {
			for _, in := range b.Instrs {
				st, isStore := in.(*ssa.Store)
				if !isStore {
					continue
				}
				fa, isFA := st.Addr.(*ssa.FieldAddr)
				if !isFA {
					continue
				}
				pt, isP := fa.X.Type().Underlying().(*types.Pointer)
				if !isP {
					continue
				}
				stt, isS := pt.Elem().Underlying().(*types.Struct)
				if !isS {
					continue
				}
				if p.TypeStr(pt.Elem(), nil)+"."+stt.Field(fa.Field).Name() != key {
					continue
				}
				v := st.Val
				if ct, ok := v.(*ssa.ChangeType); ok {
					v = ct.X
				}
				f, isFn := v.(*ssa.Function)
				if !isFn || p.FuncName(f) != target {
					bad = append(bad, fmt.Sprintf("%s stores something other than %s to %s", fname, target, key))
				}
			}
		}
	}
	return bad
}

// OverridesAllScan: the named struct type declares, itself, every method of
// its embedded interface field that returns an error (a wrapper that is meant
// to translate errors must not let one be promoted from the embedded value).
func (p *Program) OverridesAllScan(typeName, field string) []string {
	obj := p.Root.Pkg.Scope().Lookup(typeName)
	tn, ok := obj.(*types.TypeName)
	if !ok {
		return []string{"no type " + typeName}
	}
	named, ok := tn.Type().(*types.Named)
	if !ok {
		return []string{typeName + " is not a named type"}
	}
	st, ok := named.Underlying().(*types.Struct)
	if !ok {
		return []string{typeName + " is not a struct"}
	}
	var iface *types.Interface
	for i := 0; i < st.NumFields(); i++ {
		if st.Field(i).Name() == field && st.Field(i).Embedded() {
			iface, _ = st.Field(i).Type().Underlying().(*types.Interface)
		}
	}
	if iface == nil {
		return []string{typeName + " has no embedded interface field " + field}
	}
	own := map[string]bool{}
	for i := 0; i < named.NumMethods(); i++ {
		own[named.Method(i).Name()] = true
	}
	var bad []string
	for i := 0; i < iface.NumMethods(); i++ {
		m := iface.Method(i)
		sig := m.Type().(*types.Signature)
		rs := sig.Results()
		if rs.Len() == 0 || types.TypeString(rs.At(rs.Len()-1).Type(), nil) != "error" {
			continue
		}
		if !own[m.Name()] {
			bad = append(bad, fmt.Sprintf("%s.%s is promoted from the embedded %s: its error is not translated", typeName, m.Name(), field))
		}
	}
	return bad
}

// DeterministicScan: no function of the named package (closures included)
// iterates over a map, selects over channels, starts a goroutine or calls into
// the clock, a random source or the process environment, or reads os.Args
// outside main - the syntactic sources of run-to-run variation in a
// single-threaded generator.
func (p *Program) DeterministicScan(pkgName string) []string {
	var bad []string
	banned := func(fn *ssa.Function) string {
		if fn == nil || fn.Pkg == nil {
			return ""
		}
		path := fn.Pkg.Pkg.Path()
		switch path {
		case "time":
			if fn.Name() == "Now" || fn.Name() == "Since" || fn.Name() == "Until" {
				return "time." + fn.Name()
			}
		case "math/rand", "math/rand/v2", "crypto/rand":
			return path + "." + fn.Name()
		case "os":
			switch fn.Name() {
			case "Getenv", "Environ", "LookupEnv", "Hostname", "Getpid", "Getwd", "Getuid", "ExpandEnv":
				return "os." + fn.Name()
			}
		}
		return ""
	}
	var visit func(fn *ssa.Function)
	seen := map[*ssa.Function]bool{}
	visit = func(fn *ssa.Function) {
		if seen[fn] {
			return
		}
		seen[fn] = true
		name := p.FuncName(fn)
		for _, b := range fn.Blocks {
			for _, in := range b.Instrs {
				switch x := in.(type) {
				case *ssa.Range:
					if _, isMap := x.X.Type().Underlying().(*types.Map); isMap {
						bad = append(bad, fmt.Sprintf("%s iterates over a map at %s (iteration order varies from run to run)", name, p.Prog.Fset.Position(x.Pos())))
					}
				case *ssa.UnOp:
					// main's own flag handling (--version, --help) aside, what is generated
					// must not depend on how the program was invoked
					if g, ok := x.X.(*ssa.Global); ok && g.Pkg != nil && g.Pkg.Pkg.Path() == "os" && g.Name() == "Args" && !(fn.Name() == "main" && fn.Parent() == nil) {
						bad = append(bad, fmt.Sprintf("%s reads os.Args at %s (the output would depend on how the program was invoked)", name, p.Prog.Fset.Position(x.Pos())))
					}
				case *ssa.Select:
					bad = append(bad, name+" selects over channels")
				case *ssa.Go:
					bad = append(bad, name+" starts a goroutine")
				case ssa.CallInstruction:
					if b := banned(x.Common().StaticCallee()); b != "" {
						bad = append(bad, name+" calls "+b)
					}
				}
			}
		}
		for _, a := range fn.AnonFuncs {
			visit(a)
		}
	}
	found := false
	for _, pkg := range p.Pkgs {
		if pkg.Pkg.Name() != pkgName {
			continue
		}
		found = true
		for _, m := range pkg.Members {
			if fn, ok := m.(*ssa.Function); ok {
				visit(fn)
			}
		}
	}
	if !found {
		return []string{"no package " + pkgName + " under verification"}
	}
	sort.Strings(bad)
	return bad
}
