// Command govc: contract-based deductive verification of /repo's current
// working tree. See /verif/DESIGN.md.
package main

import (
	"go/types"
	"encoding/json"
	"flag"
	"fmt"
	"os"
	"path/filepath"
	"sort"
	"strconv"
	"strings"
	"time"

	"govc/internal/smt"
	"govc/internal/replay"
	"govc/internal/spec"
	"govc/internal/vc"
)

type finding struct {
	Status     string `json:"status"` // open | fixed
	Property   string `json:"property"`
	Obligation string `json:"obligation"` // obligation name prefix (function/kind.label)
	What       string `json:"what"`
	Commit     string `json:"commit,omitempty"`
}

func main() {
	repo := flag.String("repo", "/repo", "repository under verification")
	specs := flag.String("specs", "/verif/specs", "directory with trusted *.spec files")
	prop := flag.String("prop", "", "property id (C01..)")
	tier := flag.String("tier", "quick", "quick | thorough")
	evidence := flag.String("evidence", "", "evidence file to write")
	onlyFn := flag.String("fn", "", "verify only this function (debugging)")
	verbose := flag.Bool("v", false, "print every obligation")
	keep := flag.Bool("keep", false, "keep all SMT files")
	work := flag.String("work", "", "scratch directory (default: mktemp under $TMPDIR)")
	replayDir := flag.String("replaydir", "/verif/replay", "where violation records go")
	findingsFile := flag.String("findings", "/verif/known_findings.json", "known findings")
	sweep := flag.Bool("sweep", false, "finding aid, not a check: run every function WITHOUT a contract under a synthesised safety-only contract (non-nil pointer parameters, assigns everything) and list the bounds / division / conversion obligations that do not discharge")
	crosscheck := flag.Bool("crosscheck", false, "soundness canary, not a check: run every function under contract that the replay can drive on its candidate inputs and evaluate all its ensures clauses on the observed results; a clause that was proved but is false on a real execution means the engine or a trusted contract is wrong")
	noReplay := flag.Bool("noreplay", false, "do not look for concrete failing inputs of failed obligations")
	list := flag.Bool("list", false, "list functions under contract and their tags")
	timeout := flag.Int("timeout", 0, "per-obligation timeout in seconds (default 10 quick / 60 thorough)")
	flag.Parse()

	start := time.Now()
	seed := 0
	if s := os.Getenv("VERIF_SEED"); s != "" {
		seed, _ = strconv.Atoi(s)
	}
	if t := os.Getenv("VERIF_TIER"); t != "" && *tier == "" {
		*tier = t
	}
	p, err := vc.Load(*repo, *specs)
	if err != nil {
		fmt.Fprintln(os.Stderr, "govc: load:", err)
		os.Exit(2)
	}
	if *list {
		for _, n := range p.FunctionsUnderContract() {
			fmt.Printf("%-60s %v bound=%v\n", n, p.Contract[n].Tags, p.Funcs[n] != nil)
		}
		return
	}
	cleanup := func() {}
	quit := func(code int) {
		cleanup()
		os.Exit(code)
	}
	dir := *work
	if dir == "" {
		dir, err = os.MkdirTemp("", "govc.")
		if err != nil {
			fmt.Fprintln(os.Stderr, err)
			os.Exit(2)
		}
		if !*keep {
			cleanup = func() { os.RemoveAll(dir) }
			defer cleanup()
		}
	} else {
		os.MkdirAll(dir, 0o755)
	}
	opt := vc.Options{TimeoutS: 10, Solvers: smt.Solvers[:2], WorkDir: dir, Parallel: 12, KeepFiles: *keep, VacuityTimeoutS: 2}
	if *tier == "thorough" {
		opt.TimeoutS = 60
		opt.Solvers = smt.Solvers
		opt.All = true
		opt.Parallel = 5
		opt.VacuityTimeoutS = 5
	}
	if *timeout > 0 {
		opt.TimeoutS = *timeout
	}
	if n, err := strconv.Atoi(os.Getenv("GOVC_PARALLEL")); err == nil && n > 0 {
		// several checks side by side (the self-test corpus): fewer solver processes each
		opt.Parallel = n
	}

	if *sweep {
		runSweep(p, opt)
		return
	}
	if *crosscheck {
		quit(runCrossCheck(p, *repo, dir, *prop))
	}
	// select functions
	var fns []string
	for _, n := range p.FunctionsUnderContract() {
		if *onlyFn != "" {
			if n == *onlyFn {
				fns = append(fns, n)
			}
			continue
		}
		if hasTag(p.Contract[n].Tags, *prop) {
			fns = append(fns, n)
		}
	}
	var lemmas []int
	for i, lm := range p.Spec.Lemmas {
		if (*onlyFn == "" && hasTag(lm.Tags, *prop)) || (*onlyFn != "" && "lemma/"+lm.Name == *onlyFn) {
			lemmas = append(lemmas, i)
		}
	}
	if len(fns) == 0 && len(lemmas) == 0 {
		fmt.Fprintf(os.Stderr, "govc: no function under contract for %q\n", *prop+*onlyFn)
		quit(2)
	}

	type obRec struct {
		Name    string  `json:"obligation"`
		Kind    string  `json:"kind"`
		Status  string  `json:"status"`
		Solver  string  `json:"solver,omitempty"`
		Seconds float64 `json:"seconds"`
		Size    int     `json:"smt_bytes,omitempty"`
		Text    string  `json:"clause,omitempty"`
	}
	var all []obRec
	var failed []vc.OblResult
	var vacuous []vc.OblResult
	var undecided []string
	total, discharged, canaries, canariesOK := 0, 0, 0, 0
	returns := 0
	var deadReturns []string
	solverTime := map[string]float64{}
	solverCount := map[string]int{}
	assumptions := map[string]bool{}
	abstractions := map[string]int{}
	var notes []string
	reports := make([]vc.FnReport, len(fns)+len(lemmas))
	done := make(chan int)
	for i, n := range fns {
		go func(i int, n string) {
			reports[i] = vc.VerifyFunction(p, n, opt)
			done <- i
		}(i, n)
	}
	for j, li := range lemmas {
		go func(j, li int) {
			reports[len(fns)+j] = vc.VerifyLemma(p, p.Spec.Lemmas[li], opt)
			done <- j
		}(j, li)
	}
	for range reports {
		<-done
	}
	for _, rep := range reports {
		if rep.Err != "" {
			undecided = append(undecided, rep.Name+": "+rep.Err)
			continue
		}
		if rep.BindErr != "" {
			undecided = append(undecided, rep.Name+": "+rep.BindErr)
		}
		for _, u := range rep.Used {
			assumptions[u] = true
		}
		for k, v := range rep.Abstr {
			abstractions[rep.Name+": "+k] += v
		}
		for _, nn := range rep.Notes {
			notes = append(notes, rep.Name+": "+nn)
		}
		for _, r := range rep.Results {
			if r.Vacuity && r.Kind == "reachability" {
				returns++
				if r.Status != "ok" {
					deadReturns = append(deadReturns, r.Name)
				}
				continue
			}
			if r.Vacuity {
				canaries++
				if r.Status == "ok" {
					canariesOK++
				} else {
					vacuous = append(vacuous, r)
				}
				continue
			}
			// clause-level tags restrict an ensures clause to the listed properties
			if *prop != "" && len(r.Tags) > 0 && !hasTag(r.Tags, *prop) {
				continue
			}
			total++
			rec := obRec{Name: r.Name, Kind: r.Kind, Status: r.Status, Solver: r.Solver, Seconds: round3(r.Seconds), Size: r.QuerySize, Text: r.Text}
			all = append(all, rec)
			if r.Status == "proved" {
				discharged++
				solverTime[r.Solver] += r.Seconds
				solverCount[r.Solver]++
			} else if r.Status == "engine-error" {
				undecided = append(undecided, r.Name+": engine fault (the solvers rejected the query or disagreed): "+firstLine(r.Output, ""))
			} else if callee := uncontractedModuleCallee(rep.Abstr); callee != "" {
				// Verification is modular: a module function without a contract is
				// havoc at its call sites. An obligation that does not discharge in
				// its caller says "needs a contract", not "the property is broken".
				undecided = append(undecided, r.Name+": not discharged, but "+rep.Name+" calls "+callee+", which has no contract (everything is havocked at that call): write one")
				r.Status = "undecided"
			} else {
				failed = append(failed, r)
			}
			if *verbose || r.Status != "proved" {
				fmt.Printf("  [%s] %s (%s %.2fs) %s\n", r.Status, r.Name, r.Solver+r.Raw, r.Seconds, firstLine(r.Output, r.Status))
			}
		}
	}

	// known findings
	var known []finding
	if data, err := os.ReadFile(*findingsFile); err == nil {
		_ = json.Unmarshal(data, &known)
	}
	exit := 0
	violations := 0
	replayCache := map[string]replay.Outcome{}
	var replays []map[string]any
	knownReported := []map[string]string{}
	for _, f := range failed {
		matched := false
		for _, k := range known {
			if k.Status == "open" && k.Property == *prop && strings.HasPrefix(stripWhere(f.Name), k.Obligation) {
				fmt.Printf("KNOWN-FINDING: property=%s %s (%s)\n", *prop, k.What, k.Obligation)
				knownReported = append(knownReported, map[string]string{"obligation": f.Name, "listed_as": k.Obligation, "what": k.What})
				matched = true
				break
			}
		}
		if matched {
			continue
		}
		violations++
		exit = 1
		// look for a concrete failing input on the real code (never decides anything:
		// the obligation has already failed; this only makes the report concrete)
		if !*noReplay {
			key := f.Fn + "|" + f.Kind + "|" + f.Label + "|" + f.Text
			if strings.HasPrefix(f.Kind, "safety") {
				key = f.Fn + "|safety"
			}
			oc, done := replayCache[key]
			if !done {
				oc = replay.Try(p, *repo, filepath.Join(*replayDir, *prop, "harness"), f)
				replayCache[key] = oc
			}
			if oc.Found {
				f.Replayed = true
			}
			data, _ := json.MarshalIndent(oc, "", " ")
			f.ReplayOutput = string(data)
			replays = append(replays, map[string]any{"obligation": f.Name, "found": oc.Found, "input": oc.Input, "observed": oc.Observed, "reason": oc.Reason, "candidates_run": oc.Tried, "seconds": round3(oc.Seconds)})
		}
		path := writeReplay(*replayDir, *prop, f, dir)
		suffix := ""
		if !f.Replayed {
			suffix = " no-failing-input-found"
		}
		fmt.Printf("VIOLATION property=%s replay=%s%s\n", *prop, path, suffix)
	}
	for _, v := range vacuous {
		fmt.Printf("UNDECIDED vacuity: hypotheses at %s are contradictory (engine/contract fault)\n", v.Name)
		if exit == 0 {
			exit = 2
		}
	}
	for _, u := range undecided {
		fmt.Printf("UNDECIDED obligation=%s\n", u)
		if exit == 0 {
			exit = 2
		}
	}

	wall := time.Since(start).Seconds()
	for _, li := range lemmas {
		fns = append(fns, "lemma "+p.Spec.Lemmas[li].Name)
	}
	if len(deadReturns) > 0 {
		fmt.Printf("note: %d of %d return points are provably unreachable under the contracts (listed in the evidence): %s\n", len(deadReturns), returns, strings.Join(deadReturns, ", "))
	}
	fmt.Printf("%s %s: %d functions/lemmas under contract, %d obligations, %d discharged, %d failed, %d vacuity canaries (%d ok), %.1fs\n",
		*prop, *tier, len(fns), total, discharged, len(failed), canaries, canariesOK, wall)

	if *evidence != "" {
		var samples []any
		step := len(all)/12 + 1
		for i := 0; i < len(all); i += step {
			samples = append(samples, all[i])
		}
		var assume []string
		for a := range assumptions {
			assume = append(assume, a)
		}
		sort.Strings(assume)
		var abs []string
		for a, n := range abstractions {
			abs = append(abs, fmt.Sprintf("%s (x%d)", a, n))
		}
		sort.Strings(abs)
		var und []any
		for _, f := range failed {
			und = append(und, map[string]any{"obligation": f.Name, "solver_status": f.Raw, "output": firstLine(f.Output, "")})
		}
		byKind := map[string]int{}
		for _, r := range all {
			byKind[r.Kind]++
		}
		ev := map[string]any{
			"property_id": *prop,
			"tier":        *tier,
			"seed":        seed,
			"level":       "proof",
			"coverage": map[string]any{
				// obligations listed as open known findings are reported apart
				// (known_findings_reported): they are neither discharged nor claimed
				"obligations":              total - len(knownReported),
				"discharged":               discharged,
				"obligations_generated":    total,
				"checker_cmd":              strings.Join(os.Args, " "),
				"trusted_base":             trustedBase(p, assume),
				"functions_under_contract": fns,
				"obligations_by_kind":      byKind,
				"solver_seconds":           roundMap(solverTime),
				"discharged_by_solver":     solverCount,
				"vacuity_canaries":         canaries,
				"vacuity_canaries_not_provable": canariesOK,
				"return_points":            returns,
				"return_points_proved_unreachable": deadReturns,
				"undischarged":             und,
				"replays_of_failed_obligations": replays,
				"undecided":                undecided,
				"known_findings_reported":  knownReported,
				"engine_abstractions_hit":  abs,
				"notes":                    notes,
				"samples":                  samples,
				"all_obligations":          all,
				"explanation":              "every obligation is generated from go/ssa of /repo's working tree (build tag verif) and the //@ contracts; one SMT query per obligation; integers are mathematical with overflow obligations",
			},
			"assumptions": assume,
			"wall_s":      round3(wall),
			"violations":  violations,
		}
		data, _ := json.MarshalIndent(ev, "", " ")
		os.MkdirAll(filepath.Dir(*evidence), 0o755)
		if err := os.WriteFile(*evidence, data, 0o644); err != nil {
			fmt.Fprintln(os.Stderr, "govc: evidence:", err)
			quit(2)
		}
	}
	quit(exit)
}

func trustedBase(p *vc.Program, assume []string) []string {
	tb := []string{
		"go/packages + go/ssa (golang.org/x/tools v0.29.0) represent the Go semantics of the source; the SSA->SMT translation of govc is faithful (mitigated by the must-fail selftest corpus)",
		"solvers (z3 4.8.12, z3 5.1.0, cvc5 1.0.3) are sound for unsat",
		"no string/slice/array has more than 2^48 elements (used to discharge index-arithmetic overflow obligations)",
		"sequential semantics: go statements, channels, select and sync are not modelled",
	}
	for _, a := range assume {
		if strings.HasPrefix(a, "trusted contract") || strings.HasPrefix(a, "axiom") || strings.HasPrefix(a, "external") {
			tb = append(tb, a)
		}
	}
	return tb
}

func hasTag(tags []string, t string) bool {
	for _, x := range tags {
		if x == t {
			return true
		}
	}
	return false
}

func stripWhere(name string) string {
	if i := strings.LastIndex(name, "@"); i >= 0 {
		return name[:i]
	}
	return name
}

func firstLine(s, status string) string {
	s = strings.TrimSpace(s)
	if status == "proved" {
		return ""
	}
	if i := strings.IndexByte(s, '\n'); i >= 0 {
		s = s[:i]
	}
	if len(s) > 160 {
		s = s[:160]
	}
	return s
}

func round3(f float64) float64 { return float64(int(f*1000+0.5)) / 1000 }

func roundMap(m map[string]float64) map[string]float64 {
	o := map[string]float64{}
	for k, v := range m {
		o[k] = round3(v)
	}
	return o
}

func writeReplay(dir, prop string, f vc.OblResult, work string) string {
	d := filepath.Join(dir, prop)
	os.MkdirAll(d, 0o755)
	name := smt.Ident(stripWhere(f.Name))
	if len(name) > 120 {
		name = name[:120]
	}
	path := filepath.Join(d, name+".json")
	rec := map[string]any{
		"property":      prop,
		"obligation":    f.Name,
		"kind":          f.Kind,
		"clause":        f.Text,
		"where":         f.Where,
		"solver_status": f.Raw,
		"solver":        f.Solver,
		"per_solver":    f.PerSolver,
		"solver_output": f.Output,
		"model":         f.Values,
		"replayed":      f.Replayed,
		"replay_output": f.ReplayOutput,
		"note":          "a failed obligation that was discharged on the unchanged tree; see solver_output. 'replayed' is true only if the model was confirmed on the real code.",
	}
	data, _ := json.MarshalIndent(rec, "", " ")
	os.WriteFile(path, data, 0o644)
	return path
}

// runSweep: a zero-annotation no-panic sweep (finding aid). Every function of
// the verified packages that has no contract gets a synthesised one: pointer,
// interface, map, func and slice-of-pointer parameters are non-nil, everything
// may be assigned, nothing is ensured. Only obligations about indexing,
// slicing, division and make() sizes are listed: nil dereferences of fields
// would need real preconditions.
func runSweep(p *vc.Program, opt vc.Options) {
	var names []string
	for n, fn := range p.Funcs {
		if _, has := p.Contract[n]; has {
			continue
		}
		if fn.Blocks == nil || strings.HasPrefix(n, "init") {
			continue
		}
		names = append(names, n)
	}
	sort.Strings(names)
	fmt.Printf("SWEEP without contract: %s\n", strings.Join(names, ", "))
	total, bad := 0, 0
	for _, n := range names {
		fn := p.Funcs[n]
		cs := &spec.FuncSpec{Name: n, HasAssigns: true, Assigns: []spec.Expr{&spec.Ident{Name: "everything"}}}
		for i, prm := range fn.Params {
			pn := fmt.Sprintf("p%d", i)
			if prm.Name() != "" && prm.Name() != "_" {
				pn = prm.Name()
			}
			cs.Params = append(cs.Params, pn)
			switch prm.Type().Underlying().(type) {
			case *types.Pointer, *types.Interface, *types.Map, *types.Signature:
				cs.Requires = append(cs.Requires, spec.Clause{E: &spec.Binary{Op: "!=", X: &spec.Ident{Name: pn}, Y: &spec.NilLit{}}, Text: pn + " != nil"})
			}
		}
		for i := 0; i < fn.Signature.Results().Len(); i++ {
			cs.Results = append(cs.Results, fmt.Sprintf("r%d", i))
		}
		p.Contract[n] = cs
		rep := vc.VerifyFunction(p, n, opt)
		delete(p.Contract, n)
		if rep.Err != "" {
			fmt.Printf("SWEEP skip %s: %s\n", n, firstLine(rep.Err, ""))
			continue
		}
		for _, r := range rep.Results {
			if r.Vacuity || !strings.HasPrefix(r.Kind, "safety") {
				continue
			}
			k := strings.TrimPrefix(r.Kind, "safety.")
			if (k == "nil" && os.Getenv("GOVC_SWEEP_NIL") == "") || k == "overflow" || k == "truncation" || k == "typed-nil" || k == "nil-map" || k == "ownership" {
				continue
			}
			total++
			if r.Status != "proved" {
				bad++
				fmt.Printf("SWEEP open %s (%s)\n", r.Name, r.Raw)
			}
		}
	}
	fmt.Printf("SWEEP: %d functions without contract, %d indexing/division obligations, %d not discharged without preconditions\n", len(names), total, bad)
}

// runCrossCheck: every ensures clause that the verifier proves must also hold
// on real executions. For each function under contract (of the given property,
// or all) that the replay harness can drive, the real function is run on the
// replay's candidate inputs and all ensures clauses are evaluated on what it
// returned. A falsified clause, or a panic on an input satisfying the
// requires clauses, is a fault of the engine or of a trusted contract.
func runCrossCheck(p *vc.Program, repo, work, prop string) int {
	names := p.FunctionsUnderContract()
	driven, bad, evals := 0, 0, 0
	for _, n := range names {
		cs := p.Contract[n]
		if prop != "" && prop != "all" && !hasTag(cs.Tags, prop) {
			continue
		}
		if len(cs.Ensures) == 0 || p.Funcs[n] == nil {
			continue
		}
		oc := replay.Try(p, repo, filepath.Join(work, "crosscheck"), vc.OblResult{Oblig: vc.Oblig{Fn: n, Name: n + "/crosscheck", Kind: "crosscheck"}})
		if oc.Tried == 0 {
			continue
		}
		driven++
		if oc.Found {
			bad++
			fmt.Printf("CROSSCHECK FAULT %s: input %v gives %s\n", n, oc.Input, oc.Observed)
		} else {
			fmt.Printf("crosscheck ok   %s: %d executions (%d outside requires), %d clause evaluations held, %d inconclusive\n", n, oc.Tried, oc.Skipped, oc.ClauseEvals, oc.ClauseSkips)
			evals += oc.ClauseEvals
		}
	}
	fmt.Printf("crosscheck: %d functions driven, %d clause evaluations on real executions all held, %d functions with a proved clause that is false on a real execution\n", driven, evals, bad)
	if bad > 0 {
		return 2
	}
	return 0
}

// uncontractedModuleCallee names a function of the verified module that the
// reported function calls although it has no contract ("" if there is none).
func uncontractedModuleCallee(abstr map[string]int) string {
	const prefix = "call to module function without contract (everything havocked): "
	best := ""
	for k := range abstr {
		if strings.HasPrefix(k, prefix) {
			if name := k[len(prefix):]; best == "" || name < best {
				best = name
			}
		}
	}
	return best
}
