#!/bin/sh
# Builds the govc engine from files on disk only (offline).
set -e
cd /verif/govc
export GOFLAGS=-mod=mod GOPROXY=off GOSUMDB=off GOTOOLCHAIN=local
mkdir -p /verif/bin
go build -o /verif/bin/govc ./cmd/govc
