package connect_test

import (
	"bytes"
	"compress/gzip"
	"context"
	"io"
	"net/http"
	"net/http/httptest"
	"sync"
	"testing"

	connect "github.com/bufbuild/connect-go"
	pingv1 "github.com/bufbuild/connect-go/internal/gen/connect/ping/v1"
)

// A Request that has been sent once with CallUnary by a client that
// compresses (WithSendGzip) keeps "Content-Encoding: gzip" in its header map.
// CallServerStream says it makes sure that what such headers "say about the
// protocol, the codec and the compression" doesn't leak into the new call,
// but the streaming request goes out with Content-Encoding: gzip although its
// body is a sequence of envelopes, not a gzip stream. The same happens when
// the Request is then used with a gRPC client.
func TestAuditC05uFinding3(t *testing.T) {
	t.Parallel()
	type seen struct {
		contentType     string
		contentEncoding string
		body            []byte
	}
	var mu sync.Mutex
	requests := map[string]seen{}
	mux := http.NewServeMux()
	mux.HandleFunc("/", func(w http.ResponseWriter, r *http.Request) {
		body, _ := io.ReadAll(r.Body)
		mu.Lock()
		requests[r.URL.Path] = seen{r.Header.Get("Content-Type"), r.Header.Get("Content-Encoding"), body}
		mu.Unlock()
		w.WriteHeader(http.StatusServiceUnavailable) // we only look at the requests
	})
	server := httptest.NewServer(mux)
	defer server.Close()

	text := "hello hello hello hello hello hello hello hello"
	request := connect.NewRequest(&pingv1.PingRequest{Text: text})
	unary := connect.NewClient[pingv1.PingRequest, pingv1.PingResponse](
		server.Client(), server.URL+"/svc/Unary", connect.WithSendGzip())
	_, _ = unary.CallUnary(context.Background(), request)

	streaming := connect.NewClient[pingv1.PingRequest, pingv1.PingResponse](
		server.Client(), server.URL+"/svc/ConnectStream", connect.WithSendGzip())
	if stream, err := streaming.CallServerStream(context.Background(), request); err == nil {
		for stream.Receive() {
		}
		_ = stream.Close()
	}
	grpcUnary := connect.NewClient[pingv1.PingRequest, pingv1.PingResponse](
		server.Client(), server.URL+"/svc/GRPCUnary", connect.WithGRPC(), connect.WithSendGzip())
	_, _ = grpcUnary.CallUnary(context.Background(), request)

	// The same through a forwarding handler: it receives a gzipped Connect
	// unary request and passes the *connect.Request on to a gRPC client.
	forwarder := connect.NewClient[pingv1.PingRequest, pingv1.PingResponse](
		server.Client(), server.URL+"/svc/ForwardedGRPCUnary", connect.WithGRPC())
	proxyMux := http.NewServeMux()
	proxyMux.Handle("/proxy/Ping", connect.NewUnaryHandler("/proxy/Ping",
		func(ctx context.Context, req *connect.Request[pingv1.PingRequest]) (*connect.Response[pingv1.PingResponse], error) {
			return forwarder.CallUnary(ctx, req)
		}))
	proxy := httptest.NewServer(proxyMux)
	defer proxy.Close()
	viaProxy := connect.NewClient[pingv1.PingRequest, pingv1.PingResponse](
		proxy.Client(), proxy.URL+"/proxy/Ping", connect.WithSendGzip())
	_, _ = viaProxy.CallUnary(context.Background(), connect.NewRequest(&pingv1.PingRequest{Text: text}))

	mu.Lock()
	defer mu.Unlock()
	// Sanity: the unary Connect request really was a gzip body.
	if first := requests["/svc/Unary"]; first.contentEncoding != "gzip" {
		t.Fatalf("setup: expected the unary request to be gzipped, got Content-Encoding %q", first.contentEncoding)
	}
	for _, path := range []string{"/svc/ConnectStream", "/svc/GRPCUnary", "/svc/ForwardedGRPCUnary"} {
		got, ok := requests[path]
		if !ok {
			t.Fatalf("no request seen on %s", path)
		}
		if got.contentEncoding == "" || got.contentEncoding == "identity" {
			continue
		}
		// A strictly HTTP- and spec-following peer applies the content coding
		// named by Content-Encoding to the whole body.
		_, gzErr := gzip.NewReader(bytes.NewReader(got.body))
		t.Errorf("property: the request the client writes is decodable by a strictly spec-following peer (no HTTP Content-Encoding on an enveloped %s body; per-message compression is announced by Connect-Content-Encoding / Grpc-Encoding); observed on %s: Content-Encoding: %q with a body starting %q, which is not a %s stream (gzip.NewReader: %v)",
			got.contentType, path, got.contentEncoding, got.body[:5], got.contentEncoding, gzErr)
	}
}
