package connect_test

import (
	"bytes"
	"context"
	"fmt"
	"math/rand"
	"net/http"
	"net/http/httptest"
	"strings"
	"testing"

	connect "github.com/bufbuild/connect-go"
	pingv1 "github.com/bufbuild/connect-go/internal/gen/connect/ping/v1"
	"google.golang.org/protobuf/proto"
)

// C08: "A handler compresses responses only with an algorithm ... and names it
// in the protocol's encoding header"; "messages below the configured minimum
// size go uncompressed"; "compression is negotiated so both sides can decode".
//
// A Connect unary handler whose implementation returns a *Response it got from
// another connect client (the usual way to write a proxy) sends the response
// body uncompressed (it is below the handler's compress-min-bytes) but with the
// header "Content-Encoding: gzip": the upstream response's protocol headers
// are kept in Response.Header() by the client and are merged verbatim into the
// handler's HTTP response headers. The calling client then tries to gunzip an
// uncompressed body and the call fails.
func TestAuditC08aFinding2(t *testing.T) {
	// About 12 KiB of poorly compressible text, so that net/http uses chunked
	// encoding (no Content-Length) on every hop.
	rng := rand.New(rand.NewSource(1))
	var sb strings.Builder
	for sb.Len() < 12*1024 {
		fmt.Fprintf(&sb, "%016x", rng.Uint64())
	}
	text := sb.String()

	// Upstream: an ordinary handler; compresses its response with gzip because
	// the (default) client advertises gzip.
	upstreamHandler := connect.NewUnaryHandler(
		"/connect.ping.v1.PingService/Ping",
		func(_ context.Context, req *connect.Request[pingv1.PingRequest]) (*connect.Response[pingv1.PingResponse], error) {
			return connect.NewResponse(&pingv1.PingResponse{Text: req.Msg.Text}), nil
		},
	)
	upstream := httptest.NewServer(upstreamHandler)
	defer upstream.Close()
	upstreamClient := connect.NewClient[pingv1.PingRequest, pingv1.PingResponse](
		upstream.Client(),
		upstream.URL+"/connect.ping.v1.PingService/Ping",
	)

	// Front: forwards the call and returns the upstream response as is. Its
	// compress-min-bytes is larger than the message, so it must not compress.
	const frontMinBytes = 1 << 20
	frontHandler := connect.NewUnaryHandler(
		"/connect.ping.v1.PingService/Ping",
		func(ctx context.Context, req *connect.Request[pingv1.PingRequest]) (*connect.Response[pingv1.PingResponse], error) {
			return upstreamClient.CallUnary(ctx, connect.NewRequest(req.Msg))
		},
		connect.WithCompressMinBytes(frontMinBytes),
	)
	front := httptest.NewServer(frontHandler)
	defer front.Close()

	// First look at the raw HTTP response of the front handler.
	rawBody, err := proto.Marshal(&pingv1.PingRequest{Text: text})
	if err != nil {
		t.Fatal(err)
	}
	httpReq, _ := http.NewRequest(http.MethodPost, front.URL+"/connect.ping.v1.PingService/Ping", bytes.NewReader(rawBody))
	httpReq.Header.Set("Content-Type", "application/proto")
	httpReq.Header.Set("Accept-Encoding", "gzip")
	tr := &http.Transport{DisableCompression: true}
	httpRes, err := tr.RoundTrip(httpReq)
	if err != nil {
		t.Fatal(err)
	}
	buf := make([]byte, 2)
	_, _ = httpRes.Body.Read(buf)
	httpRes.Body.Close()
	isGzip := buf[0] == 0x1f && buf[1] == 0x8b
	t.Logf("front handler: status=%d Content-Encoding=%q body starts with gzip magic=%v",
		httpRes.StatusCode, httpRes.Header.Values("Content-Encoding"), isGzip)

	// Then with an ordinary connect client.
	frontClient := connect.NewClient[pingv1.PingRequest, pingv1.PingResponse](
		front.Client(),
		front.URL+"/connect.ping.v1.PingService/Ping",
	)
	res, callErr := frontClient.CallUnary(context.Background(), connect.NewRequest(&pingv1.PingRequest{Text: text}))

	if enc := httpRes.Header.Get("Content-Encoding"); enc != "" && enc != "identity" && !isGzip {
		t.Errorf("C08 expects a %d-byte response from a handler with compress-min-bytes=%d to go uncompressed "+
			"and the encoding header to name only an algorithm the handler actually used; "+
			"observed: Content-Encoding=%q on an uncompressed body", len(text), frontMinBytes, enc)
	}
	if callErr != nil {
		t.Fatalf("C08 expects the client to be able to decode the handler's response; observed call error: %v", callErr)
	}
	if res.Msg.Text != text {
		t.Fatalf("response text differs from the original")
	}
}
