package connect_test

import (
	"bytes"
	"compress/gzip"
	"context"
	"io"
	"net/http"
	"net/http/httptest"
	"strings"
	"testing"

	connect "github.com/bufbuild/connect-go"
	pingv1 "github.com/bufbuild/connect-go/internal/gen/connect/ping/v1"
	"google.golang.org/protobuf/proto"
)

// C08: "Compression is negotiated so both sides can decode ... names it in the
// protocol's encoding header".
//
// A Connect unary handler copies the metadata of the error it returns into the
// HTTP response headers (connectUnaryHandlerConn.writeResponseHeader) and then
// writes the error as *uncompressed* JSON. Error metadata obtained from a
// Connect client call holds every response header of that call, including
// Content-Encoding when the upstream (or a compressing proxy in front of it)
// sent the error body compressed - which the protocol allows and which the
// connect-go client decodes. A handler that simply returns such an error
// ("if err != nil { return nil, err }") therefore answers with
// "Content-Encoding: gzip" in front of a body that is not gzip: the peer
// cannot decode it and loses the error's code and message.
//
// (The success path was repaired in 814f7a0 - the unary marshaler now deletes a
// stale Content-Encoding when it writes an uncompressed body - but the error
// path of the same connection writes its body without going through it.)
func TestAuditC08sFinding1(t *testing.T) {
	const procedure = "/connect.ping.v1.PingService/Ping"
	const upstreamMessage = "upstream says no"

	// An upstream that answers with a Connect error whose JSON body is
	// gzip-compressed, as the Connect protocol permits when the client accepts
	// gzip (nginx/envoy with gzip enabled for application/json do exactly this).
	upstream := httptest.NewServer(http.HandlerFunc(func(w http.ResponseWriter, r *http.Request) {
		_, _ = io.Copy(io.Discard, r.Body)
		if !strings.Contains(r.Header.Get("Accept-Encoding"), "gzip") {
			t.Errorf("test setup: upstream client didn't advertise gzip")
		}
		var compressed bytes.Buffer
		zw := gzip.NewWriter(&compressed)
		_, _ = zw.Write([]byte(`{"code":"aborted","message":"` + upstreamMessage + `"}`))
		_ = zw.Close()
		w.Header().Set("Content-Type", "application/json")
		w.Header().Set("Content-Encoding", "gzip")
		w.WriteHeader(http.StatusConflict)
		w.(http.Flusher).Flush() // chunked: keep Content-Length out of the picture
		_, _ = w.Write(compressed.Bytes())
	}))
	defer upstream.Close()
	upstreamClient := connect.NewClient[pingv1.PingRequest, pingv1.PingResponse](
		upstream.Client(), upstream.URL+procedure,
	)

	// Sanity: the connect-go client decodes the compressed error.
	_, directErr := upstreamClient.CallUnary(context.Background(), connect.NewRequest(&pingv1.PingRequest{}))
	if connect.CodeOf(directErr) != connect.CodeAborted || !strings.Contains(directErr.Error(), upstreamMessage) {
		t.Fatalf("test setup: direct call to upstream: got %v, want aborted: %s", directErr, upstreamMessage)
	}

	// A handler that forwards the call and returns the upstream's error as is.
	front := httptest.NewServer(connect.NewUnaryHandler(
		procedure,
		func(ctx context.Context, req *connect.Request[pingv1.PingRequest]) (*connect.Response[pingv1.PingResponse], error) {
			_, err := upstreamClient.CallUnary(ctx, connect.NewRequest(req.Msg))
			if err != nil {
				return nil, err
			}
			return connect.NewResponse(&pingv1.PingResponse{}), nil
		},
	))
	defer front.Close()

	// (a) On the wire: whatever Content-Encoding the handler names must be what
	// the body is encoded with.
	body, _ := proto.Marshal(&pingv1.PingRequest{Text: "hi"})
	httpReq, _ := http.NewRequest(http.MethodPost, front.URL+procedure, bytes.NewReader(body))
	httpReq.Header.Set("Content-Type", "application/proto")
	httpReq.Header.Set("Accept-Encoding", "gzip") // set explicitly: no transparent decoding by net/http
	httpRes, err := front.Client().Do(httpReq)
	if err != nil {
		t.Fatalf("raw request: %v", err)
	}
	raw, _ := io.ReadAll(httpRes.Body)
	httpRes.Body.Close()
	if enc := httpRes.Header.Get("Content-Encoding"); enc != "" && enc != "identity" {
		zr, zerr := gzip.NewReader(bytes.NewReader(raw))
		if zerr == nil {
			_, zerr = io.ReadAll(zr)
		}
		if zerr != nil {
			t.Errorf("C08 (encoding header names the compression actually applied): handler's error response is labelled "+
				"Content-Encoding: %q, so the body must decode with that algorithm; observed: it does not (%v) - body is plain %q",
				enc, zerr, raw)
		}
	}

	// (b) End to end with the library's own client: the error must survive.
	frontClient := connect.NewClient[pingv1.PingRequest, pingv1.PingResponse](front.Client(), front.URL+procedure)
	_, gotErr := frontClient.CallUnary(context.Background(), connect.NewRequest(&pingv1.PingRequest{Text: "hi"}))
	if connect.CodeOf(gotErr) != connect.CodeAborted || gotErr == nil || !strings.Contains(gotErr.Error(), upstreamMessage) {
		t.Errorf("C08 (both sides can decode): expected the client to decode the handler's error as "+
			"\"aborted: %s\"; observed: %v (code %v) - the response was undecodable and the client fell back to the HTTP status",
			upstreamMessage, gotErr, connect.CodeOf(gotErr))
	}
}
