package connect_test

import (
	"context"
	"encoding/binary"
	"net/http"
	"net/http/httptest"
	"testing"

	connect "github.com/bufbuild/connect-go"
	pingv1 "github.com/bufbuild/connect-go/internal/gen/connect/ping/v1"
)

// A conformant Connect server reports resource_exhausted with one error detail
// whose message type is not linked into the client binary. (Details are
// self-describing Any values exactly so that they can be carried by programs
// that don't know the type; the gRPC client code of this library keeps such
// details as raw Any values.)
func TestAuditC05tFinding5(t *testing.T) {
	const wireError = `{"code":"resource_exhausted","message":"slow down",` +
		`"details":[{"@type":"type.googleapis.com/acme.unlinked.v1.Quota","limit":"5"}]}`
	mux := http.NewServeMux()
	mux.HandleFunc("/unary", func(w http.ResponseWriter, r *http.Request) {
		w.Header().Set("Content-Type", "application/json")
		w.WriteHeader(http.StatusTooManyRequests) // the HTTP status of resource_exhausted
		_, _ = w.Write([]byte(wireError))
	})
	mux.HandleFunc("/stream", func(w http.ResponseWriter, r *http.Request) {
		w.Header().Set("Content-Type", r.Header.Get("Content-Type"))
		payload := []byte(`{"error":` + wireError + `}`)
		prefix := [5]byte{0b10}
		binary.BigEndian.PutUint32(prefix[1:], uint32(len(payload)))
		_, _ = w.Write(prefix[:])
		_, _ = w.Write(payload)
	})
	server := httptest.NewServer(mux)
	defer server.Close()

	t.Run("connect_unary", func(t *testing.T) {
		client := connect.NewClient[pingv1.PingRequest, pingv1.PingResponse](server.Client(), server.URL+"/unary")
		_, err := client.CallUnary(context.Background(), connect.NewRequest(&pingv1.PingRequest{}))
		if code := connect.CodeOf(err); code != connect.CodeResourceExhausted {
			t.Errorf("property: a conformant error response decodes to the code and message the peer sent (resource_exhausted, \"slow down\"); "+
				"observed: code %v, error %v", code, err)
		}
	})
	t.Run("connect_stream", func(t *testing.T) {
		client := connect.NewClient[pingv1.CountUpRequest, pingv1.CountUpResponse](server.Client(), server.URL+"/stream")
		stream, err := client.CallServerStream(context.Background(), connect.NewRequest(&pingv1.CountUpRequest{}))
		if err != nil {
			t.Fatal(err)
		}
		defer stream.Close()
		for stream.Receive() {
		}
		if code := connect.CodeOf(stream.Err()); code != connect.CodeResourceExhausted {
			t.Errorf("property: a conformant end-of-stream error decodes to the code and message the peer sent (resource_exhausted, \"slow down\"); "+
				"observed: code %v, error %v", code, stream.Err())
		}
	})
}
