package connect_test

import (
	"bytes"
	"context"
	"io"
	"net/http"
	"net/http/httptest"
	"strings"
	"sync"
	"testing"

	"github.com/bufbuild/connect-go"
	pingv1 "github.com/bufbuild/connect-go/internal/gen/connect/ping/v1"
	"github.com/bufbuild/connect-go/internal/gen/connect/ping/v1/pingv1connect"
)

type auditC10rF4Server struct {
	pingv1connect.UnimplementedPingServiceHandler

	mu          sync.Mutex
	ran         bool
	has         bool
	headerShown bool // the timeout header key was present in the request
}

func (s *auditC10rF4Server) Ping(ctx context.Context, req *connect.Request[pingv1.PingRequest]) (*connect.Response[pingv1.PingResponse], error) {
	_, ok := ctx.Deadline()
	_, present1 := req.Header()["Connect-Timeout-Ms"]
	_, present2 := req.Header()["Grpc-Timeout"]
	s.mu.Lock()
	s.ran, s.has, s.headerShown = true, ok, present1 || present2
	s.mu.Unlock()
	return connect.NewResponse(&pingv1.PingResponse{}), nil
}

// C10: a malformed timeout - "missing or unknown unit, empty or non-decimal
// number" - "is rejected as invalid_argument without running user code", for
// "all header strings".
//
// A timeout header that IS sent, with the empty string as its value
// ("Connect-Timeout-Ms:" - an empty number; "Grpc-Timeout:" - empty number and
// missing unit), is not grammatical in either protocol. Both handlers use
// Header.Get(...) == "" as "no header was sent", so the malformed header is
// silently accepted as "no timeout" and user code runs unbounded.
func TestAuditC10rFinding4(t *testing.T) {
	t.Parallel()
	svc := &auditC10rF4Server{}
	mux := http.NewServeMux()
	mux.Handle(pingv1connect.NewPingServiceHandler(svc))
	server := httptest.NewUnstartedServer(mux)
	server.EnableHTTP2 = true
	server.StartTLS()
	defer server.Close()

	cases := []struct {
		name        string
		contentType string
		header      string
		body        []byte
		wantHTTP    int
	}{
		{"connect unary", "application/json", "Connect-Timeout-Ms", []byte("{}"), http.StatusBadRequest},
		{"grpc", "application/grpc+proto", "Grpc-Timeout", []byte{0, 0, 0, 0, 0}, http.StatusOK},
		{"grpc-web", "application/grpc-web+proto", "Grpc-Timeout", []byte{0, 0, 0, 0, 0}, http.StatusOK},
	}
	for _, testCase := range cases {
		svc.mu.Lock()
		svc.ran, svc.has, svc.headerShown = false, false, false
		svc.mu.Unlock()

		request, err := http.NewRequest(http.MethodPost, server.URL+"/connect.ping.v1.PingService/Ping", bytes.NewReader(testCase.body))
		if err != nil {
			t.Fatal(err)
		}
		request.Header.Set("Content-Type", testCase.contentType)
		request.Header.Set("Te", "trailers")
		request.Header[testCase.header] = []string{""} // header present, value empty
		response, err := server.Client().Do(request)
		if err != nil {
			t.Fatal(err)
		}
		responseBody, _ := io.ReadAll(response.Body)
		response.Body.Close()

		// Which code did the peer get?
		code := ""
		switch {
		case testCase.contentType == "application/json":
			if strings.Contains(string(responseBody), `"code":"invalid_argument"`) {
				code = "invalid_argument"
			} else {
				code = "HTTP " + response.Status + " " + string(responseBody)
			}
		default:
			status := response.Header.Get("Grpc-Status")
			if status == "" {
				status = response.Trailer.Get("Grpc-Status")
			}
			if status == "" {
				lower := strings.ToLower(string(responseBody))
				if idx := strings.Index(lower, "grpc-status: "); idx >= 0 {
					status = strings.SplitN(lower[idx+len("grpc-status: "):], "\r", 2)[0]
				}
			}
			if status == "3" {
				code = "invalid_argument"
			} else {
				code = "grpc-status " + status
			}
		}

		svc.mu.Lock()
		ran, has, shown := svc.ran, svc.has, svc.headerShown
		svc.mu.Unlock()
		if ran || code != "invalid_argument" {
			t.Errorf(
				"%s, header %q sent with an empty value: C10 expects: an empty number / missing unit is malformed => invalid_argument, user code does not run; "+
					"observed: handler ran=%v (header key present in request=%v, context has deadline=%v), peer got %s",
				testCase.name, testCase.header+":", ran, shown, has, code,
			)
		}
	}
}
