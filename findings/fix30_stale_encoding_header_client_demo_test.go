package connect_test

import (
	"compress/gzip"
	"context"
	"io"
	"net/http"
	"net/http/httptest"
	"strings"
	"sync"
	"testing"

	connect "github.com/bufbuild/connect-go"
	pingv1 "github.com/bufbuild/connect-go/internal/gen/connect/ping/v1"
)

// C08: "Compression is negotiated so both sides can decode", "messages below
// the configured minimum size go uncompressed".
//
// The Connect unary client writes "Content-Encoding: <name>" into the caller's
// Request.Header() map when it compresses the request body, and never removes
// or overwrites that key when it does NOT compress. A Content-Encoding value
// that is already in the map (left there by an earlier call made with the same
// *Request, or received from a downstream client when a handler forwards its
// *Request to another service) is therefore sent together with an uncompressed
// body, and the receiving handler cannot decode the request.
func TestAuditC08aFinding1(t *testing.T) {
	const minBytes = 64
	echo := func(_ context.Context, req *connect.Request[pingv1.PingRequest]) (*connect.Response[pingv1.PingResponse], error) {
		return connect.NewResponse(&pingv1.PingResponse{Text: req.Msg.Text}), nil
	}
	const procedure = "/connect.ping.v1.PingService/Ping"

	// recording wraps a handler and records the Content-Encoding of each request.
	type recorder struct {
		mu        sync.Mutex
		encodings []string
	}
	record := func(rec *recorder, next http.Handler) http.Handler {
		return http.HandlerFunc(func(w http.ResponseWriter, r *http.Request) {
			rec.mu.Lock()
			rec.encodings = append(rec.encodings, r.Header.Get("Content-Encoding"))
			rec.mu.Unlock()
			next.ServeHTTP(w, r)
		})
	}
	last := func(rec *recorder) string {
		rec.mu.Lock()
		defer rec.mu.Unlock()
		if len(rec.encodings) == 0 {
			return "<no request>"
		}
		return rec.encodings[len(rec.encodings)-1]
	}

	t.Run("reused_request", func(t *testing.T) {
		rec := &recorder{}
		server := httptest.NewServer(record(rec, connect.NewUnaryHandler(procedure, echo)))
		defer server.Close()
		client := connect.NewClient[pingv1.PingRequest, pingv1.PingResponse](
			server.Client(), server.URL+procedure,
			connect.WithSendGzip(),
			connect.WithCompressMinBytes(minBytes),
		)
		big := strings.Repeat("a", 4*minBytes)
		small := "tiny"

		req := connect.NewRequest(&pingv1.PingRequest{Text: big})
		res, err := client.CallUnary(context.Background(), req)
		if err != nil || res.Msg.Text != big {
			t.Fatalf("first call (message above the threshold, gzip): unexpected result: %v", err)
		}
		// Same Request, new (small) message.
		req.Msg.Text = small
		res, err = client.CallUnary(context.Background(), req)
		if err != nil {
			t.Fatalf("second call with the same *Request: the message (%q) is below compress-min-bytes=%d, so C08 expects it "+
				"to go uncompressed and to be decodable by the handler; observed: request carried Content-Encoding=%q "+
				"with an uncompressed body and the call failed with: %v",
				small, minBytes, last(rec), err)
		}
		if res.Msg.Text != small {
			t.Fatalf("second call: expected echo %q, got %q", small, res.Msg.Text)
		}
	})

	t.Run("forwarded_request", func(t *testing.T) {
		// backend <- front (forwards the *Request it received) <- client (sends gzip)
		rec := &recorder{}
		backend := httptest.NewServer(record(rec, connect.NewUnaryHandler(procedure, echo)))
		defer backend.Close()
		// The front's client to the backend does not compress requests.
		backendClient := connect.NewClient[pingv1.PingRequest, pingv1.PingResponse](
			backend.Client(), backend.URL+procedure,
		)
		front := httptest.NewServer(connect.NewUnaryHandler(
			procedure,
			func(ctx context.Context, req *connect.Request[pingv1.PingRequest]) (*connect.Response[pingv1.PingResponse], error) {
				res, err := backendClient.CallUnary(ctx, req) // forward as is
				if err != nil {
					return nil, err
				}
				return connect.NewResponse(res.Msg), nil
			},
		))
		defer front.Close()
		client := connect.NewClient[pingv1.PingRequest, pingv1.PingResponse](
			front.Client(), front.URL+procedure,
			connect.WithSendGzip(),
		)
		text := strings.Repeat("b", 1000)
		res, err := client.CallUnary(context.Background(), connect.NewRequest(&pingv1.PingRequest{Text: text}))
		if err != nil {
			t.Fatalf("the front's client has no send-compression configured, so C08 expects it to send the request "+
				"uncompressed with no (or identity) Content-Encoding and the backend to decode it; observed: the backend "+
				"received Content-Encoding=%q with an uncompressed body and the call failed with: %v", last(rec), err)
		}
		if res.Msg.Text != text {
			t.Fatalf("expected echo, got different text")
		}
	})

	t.Run("forwarded_request_grpc", func(t *testing.T) {
		// Same as above over gRPC, with an algorithm ("br", backed by gzip) that
		// only the client and the front know. The front's client to the backend
		// neither knows nor uses "br", yet the forwarded header map makes it send
		// "Grpc-Encoding: br", and the backend rejects the (uncompressed) request.
		withBr := func() (string, func() connect.Decompressor, func() connect.Compressor) {
			return "br",
				func() connect.Decompressor { return &gzip.Reader{} },
				func() connect.Compressor { return gzip.NewWriter(io.Discard) }
		}
		newH2 := func(h http.Handler) *httptest.Server {
			s := httptest.NewUnstartedServer(h)
			s.EnableHTTP2 = true
			s.StartTLS()
			return s
		}
		rec := &recorder{}
		backend := newH2(http.HandlerFunc(func(w http.ResponseWriter, r *http.Request) {
			rec.mu.Lock()
			rec.encodings = append(rec.encodings, r.Header.Get("Grpc-Encoding"))
			rec.mu.Unlock()
			connect.NewUnaryHandler(procedure, echo).ServeHTTP(w, r)
		}))
		defer backend.Close()
		backendClient := connect.NewClient[pingv1.PingRequest, pingv1.PingResponse](
			backend.Client(), backend.URL+procedure, connect.WithGRPC(),
		)
		front := newH2(connect.NewUnaryHandler(
			procedure,
			func(ctx context.Context, req *connect.Request[pingv1.PingRequest]) (*connect.Response[pingv1.PingResponse], error) {
				res, err := backendClient.CallUnary(ctx, req) // forward as is
				if err != nil {
					return nil, err
				}
				return connect.NewResponse(res.Msg), nil
			},
			connect.WithCompression(withBr()),
		))
		defer front.Close()
		client := connect.NewClient[pingv1.PingRequest, pingv1.PingResponse](
			front.Client(), front.URL+procedure, connect.WithGRPC(),
			connect.WithAcceptCompression(withBr()),
			connect.WithSendCompression("br"),
		)
		text := strings.Repeat("c", 1000)
		res, err := client.CallUnary(context.Background(), connect.NewRequest(&pingv1.PingRequest{Text: text}))
		if err != nil {
			t.Fatalf("the front's gRPC client has neither send-compression nor \"br\" configured, so C08 expects it to send "+
				"an uncompressed request that does not name \"br\"; observed: the backend received Grpc-Encoding=%q and the "+
				"call failed with: %v", last(rec), err)
		}
		if res.Msg.Text != text {
			t.Fatalf("expected echo, got different text")
		}
	})
}
