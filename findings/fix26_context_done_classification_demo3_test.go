package connect_test

import (
	"context"
	"net/http"
	"net/http/httptest"
	"testing"
	"time"

	"github.com/bufbuild/connect-go"
	pingv1 "github.com/bufbuild/connect-go/internal/gen/connect/ping/v1"
	"github.com/bufbuild/connect-go/internal/gen/connect/ping/v1/pingv1connect"
)

// C15, finding 3: closing the response side of a call after its context was
// cancelled / timed out fails with code "unknown". duplexHTTPCall.CloseRead
// drains the raw response body without consulting the context or the stored
// call error; after an interrupted read the body reports a transport-level
// error ("use of closed network connection" on HTTP/1.1, "io: read/write on
// closed pipe" on an HTTP/2 bidi stream) that wrapIfUncoded can only code as
// unknown.

type auditC15aF3Server struct {
	pingv1connect.UnimplementedPingServiceHandler
}

func (auditC15aF3Server) CountUp(ctx context.Context, _ *connect.Request[pingv1.CountUpRequest], stream *connect.ServerStream[pingv1.CountUpResponse]) error {
	if err := stream.Send(&pingv1.CountUpResponse{Number: 1}); err != nil {
		return err
	}
	// Deliberately ignores ctx, so that the client's own context (not the
	// deadline propagated to the server) is what ends the call.
	time.Sleep(600 * time.Millisecond)
	return ctx.Err()
}

func (auditC15aF3Server) CumSum(ctx context.Context, stream *connect.BidiStream[pingv1.CumSumRequest, pingv1.CumSumResponse]) error {
	if _, err := stream.Receive(); err != nil {
		return err
	}
	if err := stream.Send(&pingv1.CumSumResponse{Sum: 1}); err != nil {
		return err
	}
	select {
	case <-ctx.Done():
	case <-time.After(3 * time.Second):
	}
	return ctx.Err()
}

func TestAuditC15aFinding3(t *testing.T) {
	mux := http.NewServeMux()
	mux.Handle(pingv1connect.NewPingServiceHandler(auditC15aF3Server{}))
	h1 := httptest.NewServer(mux) // HTTP/1.1
	defer h1.Close()
	h2 := httptest.NewUnstartedServer(mux)
	h2.EnableHTTP2 = true
	h2.StartTLS()
	defer h2.Close()

	protocols := []struct {
		name string
		opts []connect.ClientOption
	}{
		{"connect", nil},
		{"grpc", []connect.ClientOption{connect.WithGRPC()}},
		{"grpcweb", []connect.ClientOption{connect.WithGRPCWeb()}},
	}
	type mode struct {
		name string
		want connect.Code
		mk   func() (context.Context, context.CancelFunc)
	}
	modes := []mode{
		{"cancel", connect.CodeCanceled, func() (context.Context, context.CancelFunc) {
			ctx, cancel := context.WithCancel(context.Background())
			time.AfterFunc(150*time.Millisecond, cancel)
			return ctx, cancel
		}},
		{"deadline", connect.CodeDeadlineExceeded, func() (context.Context, context.CancelFunc) {
			return context.WithTimeout(context.Background(), 150*time.Millisecond)
		}},
	}
	for _, proto := range protocols {
		for _, m := range modes {
			proto, m := proto, m
			t.Run("http1/server_stream/"+proto.name+"/"+m.name, func(t *testing.T) {
				client := pingv1connect.NewPingServiceClient(h1.Client(), h1.URL, proto.opts...)
				ctx, cancel := m.mk()
				defer cancel()
				stream, err := client.CountUp(ctx, connect.NewRequest(&pingv1.CountUpRequest{Number: 1}))
				if err != nil {
					t.Fatalf("test setup: CountUp: %v", err)
				}
				if !stream.Receive() {
					t.Fatalf("test setup: first Receive: %v", stream.Err())
				}
				if stream.Receive() { // blocks until the context ends
					t.Fatalf("unexpected second message")
				}
				if got := connect.CodeOf(stream.Err()); stream.Err() == nil || got != m.want {
					t.Fatalf("interrupted Receive: expected code %v, observed %v", m.want, stream.Err())
				}
				// The interrupted Receive was fine. Now the operation under test.
				if err := stream.Close(); err != nil {
					if got := connect.CodeOf(err); got != m.want {
						t.Errorf("C15 violated: ctx.Err()=%v; property expects an operation failing after that to have code %v, but ServerStreamForClient.Close() failed with code %v (error: %v)",
							ctx.Err(), m.want, got, err)
					}
				}
			})
		}
		proto := proto
		t.Run("http2/bidi/"+proto.name+"/cancel_between_ops", func(t *testing.T) {
			client := pingv1connect.NewPingServiceClient(h2.Client(), h2.URL, proto.opts...)
			ctx, cancel := context.WithCancel(context.Background())
			defer cancel()
			stream := client.CumSum(ctx)
			if err := stream.Send(&pingv1.CumSumRequest{Number: 1}); err != nil {
				t.Fatalf("test setup: Send: %v", err)
			}
			if _, err := stream.Receive(); err != nil {
				t.Fatalf("test setup: Receive: %v", err)
			}
			cancel()
			if _, err := stream.Receive(); connect.CodeOf(err) != connect.CodeCanceled {
				t.Fatalf("Receive after cancel: expected code canceled, observed %v", err)
			}
			if err := stream.CloseRequest(); err != nil && connect.CodeOf(err) != connect.CodeCanceled {
				t.Errorf("C15 violated: CloseRequest after cancel failed with code %v (error: %v)", connect.CodeOf(err), err)
			}
			time.Sleep(100 * time.Millisecond) // let net/http tear the stream down
			if err := stream.CloseResponse(); err != nil {
				if got := connect.CodeOf(err); got != connect.CodeCanceled {
					t.Errorf("C15 violated: ctx.Err()=%v; property expects an operation failing after that to have code canceled, but BidiStreamForClient.CloseResponse() failed with code %v (error: %v)",
						ctx.Err(), got, err)
				}
			}
		})
	}
}
