package connect_test

import (
	"bytes"
	"context"
	"encoding/binary"
	"io"
	"net/http"
	"net/http/httptest"
	"strings"
	"testing"

	connect "github.com/bufbuild/connect-go"
	pingv1 "github.com/bufbuild/connect-go/internal/gen/connect/ping/v1"
	"google.golang.org/protobuf/proto"
)

// C07: malformed framing must reach the peer as an error code, never as success.
//
// For RPC kinds with a single request message (unary and server streaming) the
// handler reads exactly one envelope and never looks at the rest of the request
// body. A body that consists of one good envelope followed by bytes that are not
// an envelope at all (here 3 bytes - not even a full 5-byte prefix) is therefore
// answered as a successful RPC in every enveloped protocol.
func TestAuditC07aFinding6(t *testing.T) {
	t.Parallel()
	unary := connect.NewUnaryHandler(
		"/connect.ping.v1.PingService/Ping",
		func(_ context.Context, req *connect.Request[pingv1.PingRequest]) (*connect.Response[pingv1.PingResponse], error) {
			return connect.NewResponse(&pingv1.PingResponse{Number: req.Msg.Number}), nil
		},
	)
	serverStream := connect.NewServerStreamHandler(
		"/connect.ping.v1.PingService/CountUp",
		func(_ context.Context, req *connect.Request[pingv1.CountUpRequest], stream *connect.ServerStream[pingv1.CountUpResponse]) error {
			return stream.Send(&pingv1.CountUpResponse{Number: req.Msg.Number})
		},
	)
	message, err := proto.Marshal(&pingv1.PingRequest{Number: 7}) // CountUpRequest has the same wire shape (field 1, int64)
	if err != nil {
		t.Fatal(err)
	}
	body := make([]byte, 5, 16)
	binary.BigEndian.PutUint32(body[1:], uint32(len(message)))
	body = append(body, message...)
	body = append(body, 0xDE, 0xAD, 0xBE) // malformed: truncated envelope prefix

	cases := []struct {
		name        string
		handler     http.Handler
		contentType string
	}{
		{"grpc_unary", unary, "application/grpc"},
		{"grpc_web_unary", unary, "application/grpc-web"},
		{"grpc_server_stream", serverStream, "application/grpc"},
		{"connect_server_stream", serverStream, "application/connect+proto"},
	}
	for _, tc := range cases {
		tc := tc
		t.Run(tc.name, func(t *testing.T) {
			request := httptest.NewRequest(http.MethodPost, "/x", bytes.NewReader(body))
			request.ProtoMajor, request.ProtoMinor, request.Proto = 2, 0, "HTTP/2.0"
			request.Header.Set("Content-Type", tc.contentType)
			recorder := httptest.NewRecorder()
			tc.handler.ServeHTTP(recorder, request)
			response := recorder.Result()
			data, _ := io.ReadAll(response.Body)
			if strings.HasPrefix(tc.contentType, "application/connect") {
				idx := bytes.LastIndex(data, []byte("\x02\x00\x00\x00"))
				if idx < 0 {
					t.Fatalf("no EndStream envelope in %q", data)
				}
				if end := string(data[idx+5:]); !strings.Contains(end, `"error"`) {
					t.Fatalf("C07 violated: request body = 1 valid envelope + 3 garbage bytes (malformed framing); "+
						"expected an EndStream error (invalid_argument), observed success: EndStream %q, body %q", end, data)
				}
				return
			}
			status := response.Header.Get("Grpc-Status")
			if status == "" {
				status = response.Trailer.Get("Grpc-Status")
			}
			if status == "" {
				lower := strings.ToLower(string(data))
				if i := strings.LastIndex(lower, "grpc-status: "); i >= 0 {
					status = strings.TrimSpace(strings.SplitN(lower[i+len("grpc-status: "):], "\r\n", 2)[0])
				}
			}
			if status == "0" || status == "" {
				t.Fatalf("C07 violated: request body = 1 valid envelope + 3 garbage bytes (malformed framing); "+
					"expected a non-zero grpc-status (invalid_argument), observed grpc-status %q, i.e. success; body %q",
					status, data)
			}
		})
	}
}
