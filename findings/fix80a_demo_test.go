package connect_test

import (
	"context"
	"errors"
	"fmt"
	"net/http"
	"net/http/httptest"
	"testing"
	"time"

	connect "github.com/bufbuild/connect-go"
	pingv1 "github.com/bufbuild/connect-go/internal/gen/connect/ping/v1"
	"github.com/bufbuild/connect-go/internal/gen/connect/ping/v1/pingv1connect"
)

type auditC15yF2Result struct {
	receiveErr error
	ctxErr     error
}

type auditC15yF2Server struct {
	pingv1connect.UnimplementedPingServiceHandler

	results chan auditC15yF2Result
}

func (s *auditC15yF2Server) Sum(
	ctx context.Context,
	stream *connect.ClientStream[pingv1.SumRequest],
) (*connect.Response[pingv1.SumResponse], error) {
	if !stream.Receive() { // the one message the client sends
		s.results <- auditC15yF2Result{receiveErr: fmt.Errorf("setup: first Receive failed: %w", stream.Err())}
		return nil, stream.Err()
	}
	// Blocks until the client cancels the call.
	if stream.Receive() {
		s.results <- auditC15yF2Result{receiveErr: errors.New("setup: second Receive got a message")}
		return nil, nil
	}
	err := stream.Err() // nil for a clean end of the request
	// Give the server a moment to cancel the context, in case the read error
	// is delivered first.
	select {
	case <-ctx.Done():
	case <-time.After(time.Second):
	}
	s.results <- auditC15yF2Result{receiveErr: err, ctxErr: ctx.Err()}
	return nil, ctx.Err()
}

// TestAuditC15yFinding2: the client cancels the call's context while the
// handler is blocked in Receive. The handler's context is cancelled, but the
// handler's Receive fails with invalid_argument ("protocol error: incomplete
// envelope: ...") instead of canceled.
func TestAuditC15yFinding2(t *testing.T) {
	protocols := map[string][]connect.ClientOption{
		"connect": nil,
		"grpc":    {connect.WithGRPC()},
		"grpcweb": {connect.WithGRPCWeb()},
	}
	for _, httpVersion := range []string{"h2", "http1"} {
		for protocol, opts := range protocols {
			httpVersion, opts := httpVersion, opts
			t.Run(httpVersion+"/"+protocol, func(t *testing.T) {
				srv := &auditC15yF2Server{results: make(chan auditC15yF2Result, 1)}
				mux := http.NewServeMux()
				mux.Handle(pingv1connect.NewPingServiceHandler(srv))
				server := httptest.NewUnstartedServer(mux)
				server.EnableHTTP2 = httpVersion == "h2"
				server.StartTLS()
				defer server.Close()

				client := pingv1connect.NewPingServiceClient(server.Client(), server.URL, opts...)
				ctx, cancel := context.WithCancel(context.Background())
				defer cancel()
				stream := client.Sum(ctx)
				if err := stream.Send(&pingv1.SumRequest{Number: 1}); err != nil {
					t.Fatalf("setup: Send: %v", err)
				}
				time.Sleep(200 * time.Millisecond) // handler is now blocked in its second Receive

				cancel() // the call's context is cancelled here

				select {
				case result := <-srv.results:
					if !errors.Is(result.ctxErr, context.Canceled) {
						t.Fatalf("setup: handler's context should be cancelled, ctx.Err() = %v", result.ctxErr)
					}
					if result.receiveErr == nil {
						t.Fatalf("handler's Receive reported a clean end of the request after the call was cancelled")
					}
					if code := connect.CodeOf(result.receiveErr); code != connect.CodeCanceled {
						t.Errorf("C15 expects an operation that fails after the call's context was cancelled to fail with code canceled; "+
							"observed: handler's Receive failed with code %v (%v) while the handler's ctx.Err() = %v",
							code, result.receiveErr, result.ctxErr)
					}
				case <-time.After(5 * time.Second):
					t.Fatalf("handler's Receive didn't return within 5s of the cancellation")
				}
			})
		}
	}
}
