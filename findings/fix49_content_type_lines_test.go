package connect_test

import (
	"context"
	"net/http"
	"net/http/httptest"
	"strings"
	"sync/atomic"
	"testing"

	"github.com/bufbuild/connect-go"
	pingv1 "github.com/bufbuild/connect-go/internal/gen/connect/ping/v1"
)

// C12: "POSTs whose Content-Type it does not serve [are answered] with 415
// plus an Accept-Post header ... In the rejected cases user code and
// interceptors never run".
//
// A request that carries two Content-Type field lines has, per HTTP, the
// Content-Type "application/json, text/html" (field lines combine with a
// comma) - a string the handler does not advertise. The handler only looks at
// the first line, so the outcome depends on the order of the lines, and in one
// order user code runs for a Content-Type that Accept-Post does not list.
func TestAuditC12tFinding1(t *testing.T) {
	var userRuns, interceptorRuns atomic.Int32
	interceptor := connect.UnaryInterceptorFunc(func(next connect.UnaryFunc) connect.UnaryFunc {
		return func(ctx context.Context, req connect.AnyRequest) (connect.AnyResponse, error) {
			interceptorRuns.Add(1)
			return next(ctx, req)
		}
	})
	const procedure = "/connect.ping.v1.PingService/Ping"
	handler := connect.NewUnaryHandler(
		procedure,
		func(context.Context, *connect.Request[pingv1.PingRequest]) (*connect.Response[pingv1.PingResponse], error) {
			userRuns.Add(1)
			return connect.NewResponse(&pingv1.PingResponse{}), nil
		},
		connect.WithInterceptors(interceptor),
	)
	mux := http.NewServeMux()
	mux.Handle(procedure, handler)
	server := httptest.NewServer(mux)
	defer server.Close()

	post := func(contentTypes ...string) (int, string) {
		t.Helper()
		req, err := http.NewRequest(http.MethodPost, server.URL+procedure, strings.NewReader("{}"))
		if err != nil {
			t.Fatal(err)
		}
		req.Header["Content-Type"] = contentTypes // sent as separate field lines
		res, err := server.Client().Do(req)
		if err != nil {
			t.Fatal(err)
		}
		defer res.Body.Close()
		return res.StatusCode, res.Header.Get("Accept-Post")
	}

	// Sanity: the combined value sent as ONE line is rejected as unadvertised.
	userRuns.Store(0)
	interceptorRuns.Store(0)
	status, acceptPost := post("application/json, text/html")
	if status != http.StatusUnsupportedMediaType || userRuns.Load() != 0 || interceptorRuns.Load() != 0 {
		t.Fatalf("sanity: single line %q: got status %d, user runs %d", "application/json, text/html", status, userRuns.Load())
	}
	if strings.Contains(acceptPost, "text/html") {
		t.Fatalf("sanity: Accept-Post advertises text/html: %q", acceptPost)
	}

	// The same Content-Type sent as two field lines, in both orders.
	for _, lines := range [][]string{
		{"text/html", "application/json"},
		{"application/json", "text/html"},
	} {
		userRuns.Store(0)
		interceptorRuns.Store(0)
		status, acceptPost := post(lines...)
		if status != http.StatusUnsupportedMediaType || acceptPost == "" || userRuns.Load() != 0 || interceptorRuns.Load() != 0 {
			t.Errorf(
				"POST with Content-Type field lines %q (= %q, not among the advertised types): "+
					"property expects 415 + Accept-Post and no user code/interceptor run; "+
					"observed status %d, Accept-Post %q, interceptor runs %d, user code runs %d",
				lines, strings.Join(lines, ", "), status, acceptPost, interceptorRuns.Load(), userRuns.Load(),
			)
		}
	}
}
