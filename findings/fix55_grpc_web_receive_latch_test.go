package connect_test

import (
	"context"
	"errors"
	"net/http"
	"net/http/httptest"
	"reflect"
	"testing"

	connect "github.com/bufbuild/connect-go"
	pingv1 "github.com/bufbuild/connect-go/internal/gen/connect/ping/v1"
	"github.com/bufbuild/connect-go/internal/gen/connect/ping/v1/pingv1connect"
)

type auditC11uF2Server struct {
	pingv1connect.UnimplementedPingServiceHandler
}

func auditC11uF2Trailer() http.Header {
	return http.Header{
		"X-Trl-Multi":    {"b", "a, c", "b"},
		"X-Trl-Data-Bin": {connect.EncodeBinaryHeader([]byte{0, 1, 2, 255})},
	}
}

func auditC11uF2Meta() http.Header {
	return http.Header{"X-Err-One": {"v"}}
}

func (s *auditC11uF2Server) CumSum(_ context.Context, stream *connect.BidiStream[pingv1.CumSumRequest, pingv1.CumSumResponse]) error {
	for k, v := range auditC11uF2Trailer() {
		stream.ResponseTrailer()[k] = v
	}
	// error after messages
	if err := stream.Send(&pingv1.CumSumResponse{Sum: 1}); err != nil {
		return err
	}
	e := connect.NewError(connect.CodeAborted, errors.New("boom"))
	for k, v := range auditC11uF2Meta() {
		e.Meta()[k] = v
	}
	return e
}

func TestAuditC11uFinding2(t *testing.T) {
	mux := http.NewServeMux()
	mux.Handle(pingv1connect.NewPingServiceHandler(&auditC11uF2Server{}))
	server := httptest.NewUnstartedServer(mux)
	server.EnableHTTP2 = true
	server.StartTLS()
	defer server.Close()

	for _, proto := range []struct {
		name string
		opts []connect.ClientOption
	}{
		{"connect(control)", nil},
		{"grpc(control)", []connect.ClientOption{connect.WithGRPC()}},
		{"grpcweb", []connect.ClientOption{connect.WithGRPCWeb()}},
	} {
		t.Run(proto.name, func(t *testing.T) {
			client := pingv1connect.NewPingServiceClient(server.Client(), server.URL, proto.opts...)
			stream := client.CumSum(context.Background())
			_ = stream.Send(&pingv1.CumSumRequest{Number: 1})
			_ = stream.CloseRequest()
			defer stream.CloseResponse()
			var firstErr error
			for {
				if _, firstErr = stream.Receive(); firstErr != nil {
					break
				}
			}
			var connectErr *connect.Error
			if !errors.As(firstErr, &connectErr) || connectErr.Code() != connect.CodeAborted {
				t.Fatalf("expected the handler's aborted error, got %v", firstErr)
			}
			// After the first failing Receive everything is as it should be.
			for k, want := range auditC11uF2Trailer() {
				if got := stream.ResponseTrailer()[k]; !reflect.DeepEqual(got, want) {
					t.Fatalf("after first failing Receive: trailer %s expected %q, observed %q", k, want, got)
				}
			}
			// The stream has ended; asking again must not change what the peer set.
			_, secondErr := stream.Receive()
			if secondErr == nil {
				t.Fatalf("second Receive after the end of the stream returned no error")
			}
			for k, want := range auditC11uF2Trailer() {
				if got := stream.ResponseTrailer()[k]; !reflect.DeepEqual(got, want) {
					t.Errorf("C11 expects the trailers the handler set to be visible with values unchanged: after a second Receive on the ended stream, ResponseTrailer()[%s] expected %q, observed %q",
						k, want, got)
				}
			}
			if errors.As(secondErr, &connectErr) {
				for k, want := range auditC11uF2Meta() {
					if got := connectErr.Meta()[k]; !reflect.DeepEqual(got, want) {
						t.Errorf("C11 expects the error's metadata to hold the handler's values unchanged: error returned by the second Receive has Meta()[%s] expected %q, observed %q",
							k, want, got)
					}
				}
			}
		})
	}
}
