package connect_test

import (
	"context"
	"net/http"
	"net/http/httptest"
	"testing"
	"time"

	"github.com/bufbuild/connect-go"
	pingv1 "github.com/bufbuild/connect-go/internal/gen/connect/ping/v1"
	"github.com/bufbuild/connect-go/internal/gen/connect/ping/v1/pingv1connect"
)

type auditC10tF2Server struct {
	pingv1connect.UnimplementedPingServiceHandler

	remaining chan time.Duration // what the handler's context has left, or -1 for no deadline
}

func (s *auditC10tF2Server) report(ctx context.Context) {
	if deadline, ok := ctx.Deadline(); ok {
		s.remaining <- time.Until(deadline)
	} else {
		s.remaining <- -1
	}
}

func (s *auditC10tF2Server) Ping(
	ctx context.Context,
	_ *connect.Request[pingv1.PingRequest],
) (*connect.Response[pingv1.PingResponse], error) {
	s.report(ctx)
	return connect.NewResponse(&pingv1.PingResponse{}), nil
}

func (s *auditC10tF2Server) CountUp(
	ctx context.Context,
	_ *connect.Request[pingv1.CountUpRequest],
	_ *connect.ServerStream[pingv1.CountUpResponse],
) error {
	s.report(ctx)
	return nil
}

// C10: "without a client deadline the handler's context has none" and "the
// handler's context gets the corresponding deadline".
//
// The protocol clients' NewConn owns the timeout header: it deletes whatever
// the header map holds and writes the value that corresponds to the call's
// context (the code says why: the map may be a caller's Request.Header(),
// reused or forwarded from another call). For a unary call that works. For a
// server-streaming call, Client.CallServerStream merges the caller's request
// header into the outgoing header AFTER NewConn has run, so a timeout header
// that the Request still carries (left there by an earlier unary call with the
// same Request, or copied from an inbound request that is being forwarded)
// goes out to the server:
//   - the call has no deadline, but the handler's context gets one;
//   - the call has a deadline, and the server sees two timeout lines and
//     rejects the (perfectly valid) call as invalid_argument instead of giving
//     the handler the corresponding deadline.
func TestAuditC10tFinding2(t *testing.T) {
	for _, protocol := range []struct {
		name   string
		header string
		stale  string
		opts   []connect.ClientOption
	}{
		{"connect", "Connect-Timeout-Ms", "5000", nil},
		{"grpc", "Grpc-Timeout", "5S", []connect.ClientOption{connect.WithGRPC()}},
		{"grpcweb", "Grpc-Timeout", "5S", []connect.ClientOption{connect.WithGRPCWeb()}},
	} {
		protocol := protocol
		t.Run(protocol.name, func(t *testing.T) {
			impl := &auditC10tF2Server{remaining: make(chan time.Duration, 4)}
			mux := http.NewServeMux()
			mux.Handle(pingv1connect.NewPingServiceHandler(impl))
			server := httptest.NewUnstartedServer(mux)
			server.EnableHTTP2 = true
			server.StartTLS()
			defer server.Close()
			client := pingv1connect.NewPingServiceClient(server.Client(), server.URL, protocol.opts...)

			// Control: the unary path scrubs the stale header.
			unary := connect.NewRequest(&pingv1.PingRequest{})
			unary.Header().Set(protocol.header, protocol.stale)
			if _, err := client.Ping(context.Background(), unary); err != nil {
				t.Fatalf("unary control: %v", err)
			}
			if got := <-impl.remaining; got != -1 {
				t.Fatalf("unary control: handler has a deadline (%v left) without a client deadline", got)
			}

			t.Run("no_client_deadline", func(t *testing.T) {
				request := connect.NewRequest(&pingv1.CountUpRequest{Number: 1})
				request.Header().Set(protocol.header, protocol.stale) // e.g. copied from an inbound request
				stream, err := client.CountUp(context.Background(), request)
				if err != nil {
					t.Fatalf("call: %v", err)
				}
				for stream.Receive() {
				}
				_ = stream.Close()
				select {
				case got := <-impl.remaining:
					if got != -1 {
						t.Errorf("property C10 expects that without a client deadline the handler's context has none, "+
							"but the server-streaming call (context.Background()) sent the stale %s: %s that the Request carried "+
							"and the handler's context had a deadline %v away", protocol.header, protocol.stale, got)
					}
				default:
					t.Errorf("handler not reached: %v", stream.Err())
				}
			})

			t.Run("client_deadline", func(t *testing.T) {
				request := connect.NewRequest(&pingv1.CountUpRequest{Number: 1})
				request.Header().Set(protocol.header, protocol.stale)
				ctx, cancel := context.WithTimeout(context.Background(), time.Minute)
				defer cancel()
				stream, err := client.CountUp(ctx, request)
				if err != nil {
					t.Fatalf("call: %v", err)
				}
				for stream.Receive() {
				}
				_ = stream.Close()
				select {
				case got := <-impl.remaining:
					if got > time.Minute || got < time.Minute-5*time.Second {
						t.Errorf("property C10 expects the handler's context to get the deadline corresponding to the client's "+
							"(1m0s), but it had %v left", got)
					}
				default:
					t.Errorf("property C10 expects the handler's context to get the deadline corresponding to the client's "+
						"(1m0s), but the handler was never reached: the client sent its own timeout plus the stale %s: %s, and "+
						"the call failed with: %v", protocol.header, protocol.stale, stream.Err())
				}
			})
		})
	}
}
