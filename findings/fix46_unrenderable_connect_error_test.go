package connect_test

import (
	"bytes"
	"context"
	"encoding/binary"
	"encoding/json"
	"io"
	"net/http"
	"net/http/httptest"
	"testing"

	connect "github.com/bufbuild/connect-go"
	pingv1 "github.com/bufbuild/connect-go/internal/gen/connect/ping/v1"
	"google.golang.org/protobuf/types/known/anypb"
)

// A handler returns an error that carries a detail whose type is not linked
// into the server binary (for example a detail passed through from an upstream
// gRPC service: the gRPC client code puts the raw Any into Error.Details()).
func auditC05tFinding1Error() error {
	err := connect.NewError(connect.CodeNotFound, io.ErrNoProgress)
	err.AddDetail(&anypb.Any{
		TypeUrl: "type.googleapis.com/acme.unlinked.v1.Detail",
		Value:   []byte{0x08, 0x01},
	})
	return err
}

func TestAuditC05tFinding1(t *testing.T) {
	mux := http.NewServeMux()
	mux.Handle("/unary", connect.NewUnaryHandler(
		"/unary",
		func(context.Context, *connect.Request[pingv1.PingRequest]) (*connect.Response[pingv1.PingResponse], error) {
			return nil, auditC05tFinding1Error()
		},
	))
	mux.Handle("/stream", connect.NewServerStreamHandler(
		"/stream",
		func(_ context.Context, _ *connect.Request[pingv1.CountUpRequest], stream *connect.ServerStream[pingv1.CountUpResponse]) error {
			if err := stream.Send(&pingv1.CountUpResponse{Number: 1}); err != nil {
				return err
			}
			return auditC05tFinding1Error()
		},
	))
	server := httptest.NewServer(mux)
	defer server.Close()

	t.Run("connect_unary", func(t *testing.T) {
		res, err := http.Post(server.URL+"/unary", "application/proto", bytes.NewReader(nil))
		if err != nil {
			t.Fatal(err)
		}
		defer res.Body.Close()
		body, _ := io.ReadAll(res.Body)
		var wire struct {
			Code string `json:"code"`
		}
		if res.StatusCode == http.StatusOK || json.Unmarshal(body, &wire) != nil || wire.Code == "" {
			t.Errorf("property: a unary Connect error is a JSON object with a code under the code's HTTP status; "+
				"observed: HTTP %d, Content-Type %q, body %q (not a Connect error JSON)",
				res.StatusCode, res.Header.Get("Content-Type"), body)
		}
	})

	t.Run("connect_stream", func(t *testing.T) {
		// One enveloped, empty CountUpRequest.
		res, err := http.Post(server.URL+"/stream", "application/connect+proto", bytes.NewReader([]byte{0, 0, 0, 0, 0}))
		if err != nil {
			t.Fatal(err)
		}
		defer res.Body.Close()
		body, err := io.ReadAll(res.Body)
		if err != nil {
			t.Fatal(err)
		}
		endStreams := 0
		var flagsSeen []byte
		for len(body) >= 5 {
			flags, size := body[0], int(binary.BigEndian.Uint32(body[1:5]))
			if len(body) < 5+size {
				t.Fatalf("truncated envelope")
			}
			flagsSeen = append(flagsSeen, flags)
			if flags&0b10 != 0 {
				endStreams++
			}
			body = body[5+size:]
		}
		if endStreams != 1 {
			t.Errorf("property: a Connect stream ends with exactly one end-of-stream envelope (carrying the handler's error); "+
				"observed: HTTP %d, envelope flags %v, %d end-of-stream envelopes: the peer sees a stream that just stops",
				res.StatusCode, flagsSeen, endStreams)
		}
	})
}
