package connect_test

import (
	"context"
	"errors"
	"io"
	"net/http"
	"net/http/httptest"
	"testing"

	connect "github.com/bufbuild/connect-go"
	pingv1 "github.com/bufbuild/connect-go/internal/gen/connect/ping/v1"
	"github.com/bufbuild/connect-go/internal/gen/connect/ping/v1/pingv1connect"
)

// C06: "for a non-200 response that carries no valid protocol-level error the
// code is derived from the HTTP status".
//
// A Connect unary call that receives a non-200 response (for example an HTML
// error page from a proxy) whose Content-Encoding the client doesn't know
// reports CodeInternal ("unknown encoding") for every HTTP status, instead of
// the code derived from the status.
func TestAuditC06aFinding1(t *testing.T) {
	t.Parallel()
	call := func(t *testing.T, status int, contentEncoding string) *connect.Error {
		t.Helper()
		server := httptest.NewServer(http.HandlerFunc(func(w http.ResponseWriter, r *http.Request) {
			_, _ = io.Copy(io.Discard, r.Body)
			w.Header().Set("Content-Type", "text/html")
			if contentEncoding != "" {
				w.Header().Set("Content-Encoding", contentEncoding)
			}
			w.WriteHeader(status)
			_, _ = w.Write([]byte("<html><body>proxy error page</body></html>"))
		}))
		defer server.Close()
		client := pingv1connect.NewPingServiceClient(server.Client(), server.URL) // Connect protocol, unary
		_, err := client.Ping(context.Background(), connect.NewRequest(&pingv1.PingRequest{}))
		if err == nil {
			t.Fatalf("HTTP %d: expected an error, call succeeded", status)
		}
		var connectErr *connect.Error
		if !errors.As(err, &connectErr) {
			t.Fatalf("HTTP %d: error %v is not a *connect.Error", status, err)
		}
		return connectErr
	}
	for _, status := range []int{401, 403, 404, 429, 502, 503, 504} {
		// What the library itself derives from this status when nothing else is
		// wrong with the response.
		baseline := call(t, status, "")
		got := call(t, status, "br")
		if got.Code() != baseline.Code() {
			t.Errorf(
				"HTTP %d response with an HTML body (no protocol-level error) and Content-Encoding: br: "+
					"property expects the code derived from the HTTP status (%v, as for the same response without Content-Encoding), "+
					"observed %v (%v)",
				status, baseline.Code(), got.Code(), got,
			)
		}
	}
}
