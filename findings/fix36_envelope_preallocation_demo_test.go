package connect

import (
	"bytes"
	"runtime"
	"testing"
)

// An envelope prefix that promises ~2 GiB followed by three bytes must not make
// the reader allocate what it promises (C06, C07: fails safely).
func TestFindingEnvelopePreallocation(t *testing.T) {
	body := []byte{0x00, 0x7f, 0xff, 0xff, 0xff, 0x01, 0x02, 0x03}
	reader := envelopeReader{reader: bytes.NewReader(body), bufferPool: newBufferPool()}
	var before, after runtime.MemStats
	runtime.GC()
	runtime.ReadMemStats(&before)
	env := &envelope{Data: &bytes.Buffer{}}
	err := reader.Read(env)
	runtime.ReadMemStats(&after)
	if err == nil {
		t.Fatalf("truncated envelope accepted")
	}
	if grown := after.TotalAlloc - before.TotalAlloc; grown > 64<<20 {
		t.Fatalf("a 5-byte prefix promising 2 GiB made the reader allocate %d MiB before any payload arrived", grown>>20)
	}
	if CodeOf(err) != CodeInvalidArgument {
		t.Fatalf("got %v, want invalid_argument", err)
	}
}
