package connect

import (
	"context"
	"encoding/binary"
	"fmt"
	"io"
	"net/http"
	"sort"
	"strings"
	"testing"

	pingv1 "github.com/bufbuild/connect-go/internal/gen/connect/ping/v1"
	"google.golang.org/protobuf/proto"
)

// auditC03sBody delivers a fixed byte string. Every Read returns as much as
// fits into the caller's buffer, but never crosses one of the cut positions.
// The end of the body is reported either together with the last bytes
// (eofWithLast) or by a read of its own. Like the bodies of net/http, it makes
// the HTTP trailers visible at the moment it first reports io.EOF.
type auditC03sBody struct {
	data        []byte
	cuts        []int
	pos         int
	eofWithLast bool
	onEOF       func()
}

func (b *auditC03sBody) Close() error { return nil }

func (b *auditC03sBody) eof() error {
	if b.onEOF != nil {
		b.onEOF()
		b.onEOF = nil
	}
	return io.EOF
}

func (b *auditC03sBody) Read(p []byte) (int, error) {
	if b.pos >= len(b.data) {
		return 0, b.eof()
	}
	end := len(b.data)
	for _, c := range b.cuts {
		if c > b.pos {
			end = c
			break
		}
	}
	n := copy(p, b.data[b.pos:end])
	b.pos += n
	if b.pos >= len(b.data) && b.eofWithLast {
		return n, b.eof()
	}
	return n, nil
}

type auditC03sHTTPClient struct {
	body    *auditC03sBody
	header  http.Header
	trailer http.Header
}

func (c *auditC03sHTTPClient) Do(req *http.Request) (*http.Response, error) {
	go func() {
		_, _ = io.Copy(io.Discard, req.Body)
		_ = req.Body.Close()
	}()
	resp := &http.Response{
		Status:     "200 OK",
		StatusCode: http.StatusOK,
		Proto:      "HTTP/2.0",
		ProtoMajor: 2,
		Header:     c.header.Clone(),
		Trailer:    http.Header{},
		Body:       c.body,
		Request:    req,
	}
	c.body.onEOF = func() {
		for k, v := range c.trailer {
			resp.Trailer[k] = v
		}
	}
	return resp, nil
}

func auditC03sEnvelope(payload []byte) []byte {
	out := make([]byte, 5+len(payload))
	binary.BigEndian.PutUint32(out[1:5], uint32(len(payload)))
	copy(out[5:], payload)
	return out
}

func auditC03sHeader(h http.Header) string {
	keys := make([]string, 0, len(h))
	for k := range h {
		keys = append(keys, k)
	}
	sort.Strings(keys)
	var sb strings.Builder
	for _, k := range keys {
		fmt.Fprintf(&sb, "%s=%q ", k, h[k])
	}
	return sb.String()
}

// A gRPC server-streaming response: a first message that is larger than the
// client's read limit, a second (big) message, and then the HTTP trailers with
// the server's status and metadata. After the first message is refused, the
// client drains the rest of the body to get at the trailers; exactly
// discardLimit+1 bytes remain.
func TestAuditC03sFinding1(t *testing.T) {
	first, err := proto.Marshal(&pingv1.PingResponse{Text: strings.Repeat("a", 100)})
	if err != nil {
		t.Fatal(err)
	}
	// second frame: 5 bytes prefix + payload = discardLimit+1 bytes in total
	secondPayload, err := proto.Marshal(&pingv1.PingResponse{Text: strings.Repeat("b", discardLimit+1-5-5)})
	if err != nil {
		t.Fatal(err)
	}
	second := auditC03sEnvelope(secondPayload)
	if len(second) != discardLimit+1 {
		t.Fatalf("test setup: second frame has %d bytes, want %d", len(second), discardLimit+1)
	}
	body := append(auditC03sEnvelope(first), second...)

	run := func(cuts []int, eofWithLast bool) string {
		httpClient := &auditC03sHTTPClient{
			body:   &auditC03sBody{data: body, cuts: cuts, eofWithLast: eofWithLast},
			header: http.Header{"Content-Type": {"application/grpc+proto"}},
			trailer: http.Header{
				"Grpc-Status":  {"8"},
				"Grpc-Message": {"quota%20used%20up"},
				"X-Server-Md":  {"v"},
			},
		}
		client := NewClient[pingv1.PingRequest, pingv1.PingResponse](
			httpClient,
			"http://example.com/connect.ping.v1.PingService/CountUp",
			WithGRPC(),
			WithReadMaxBytes(50),
		)
		stream, err := client.CallServerStream(context.Background(), NewRequest(&pingv1.PingRequest{}))
		if err != nil {
			return "call failed: " + err.Error()
		}
		messages := 0
		for stream.Receive() {
			messages++
		}
		outcome := fmt.Sprintf("messages=%d err=%v code=%v trailers={%s}",
			messages, stream.Err(), CodeOf(stream.Err()), auditC03sHeader(stream.ResponseTrailer()))
		_ = stream.Close()
		return outcome
	}

	reference := run(nil, false) // as large reads as the library asks for, io.EOF on a read of its own
	type delivery struct {
		name        string
		cuts        []int
		eofWithLast bool
	}
	lastByte := len(body) - 1
	deliveries := []delivery{
		{"same reads, io.EOF together with the last bytes", nil, true},
		{"last byte on a read of its own, io.EOF on a separate read", []int{lastByte}, false},
		{"last byte on a read of its own, io.EOF together with it", []int{lastByte}, true},
		{"split inside the first prefix and at the frame boundary, io.EOF with last bytes", []int{3, len(first) + 5}, true},
	}
	for _, d := range deliveries {
		got := run(d.cuts, d.eofWithLast)
		if got != reference {
			t.Errorf("C03 violated: the same %d response bytes (+ the same HTTP trailers) give a different outcome depending on the delivery.\n"+
				"  expected (property): the outcome of the reference delivery (maximal reads, io.EOF on a separate read):\n    %s\n"+
				"  observed with %q:\n    %s",
				len(body), reference, d.name, got)
		}
	}
}
