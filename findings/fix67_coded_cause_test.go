package connect_test

import (
	"context"
	"errors"
	"net/http"
	"net/http/httptest"
	"testing"
	"time"

	"github.com/bufbuild/connect-go"
	pingv1 "github.com/bufbuild/connect-go/internal/gen/connect/ping/v1"
)

// C15: a call whose context is cancelled (or whose deadline passes) while it
// is waiting for the response or blocked in Receive must fail with code
// canceled (deadline_exceeded), never with another code.
//
// Since Go 1.21 a context can be cancelled with a cause
// (context.WithCancelCause, WithTimeoutCause; errgroup.WithContext does it
// with the first error of the group). net/http's HTTP/1 transport reports
// context.Cause(ctx), not ctx.Err(). If the cause is itself a *connect.Error
// (say, the error of a sibling RPC), the library takes it for an "already
// coded" error and returns it unchanged: the cancelled call fails with the
// cause's code.
func TestAuditC15uFinding1(t *testing.T) {
	for _, protocol := range []string{"connect", "grpc", "grpcweb"} {
		for _, kind := range []string{"cancel", "deadline"} {
			protocol, kind := protocol, kind
			t.Run(protocol+"/"+kind, func(t *testing.T) {
				started := make(chan struct{}, 2)
				release := make(chan struct{})
				mux := http.NewServeMux()
				mux.Handle("/ping", connect.NewUnaryHandler("/ping", func(ctx context.Context, _ *connect.Request[pingv1.PingRequest]) (*connect.Response[pingv1.PingResponse], error) {
					started <- struct{}{}
					select {
					case <-ctx.Done():
					case <-release:
					}
					return nil, connect.NewError(connect.CodeAborted, errors.New("handler released"))
				}))
				mux.Handle("/count", connect.NewServerStreamHandler("/count", func(ctx context.Context, _ *connect.Request[pingv1.CountUpRequest], stream *connect.ServerStream[pingv1.CountUpResponse]) error {
					if err := stream.Send(&pingv1.CountUpResponse{Number: 1}); err != nil {
						return err
					}
					started <- struct{}{}
					select {
					case <-ctx.Done():
					case <-release:
					}
					return connect.NewError(connect.CodeAborted, errors.New("handler released"))
				}))
				server := httptest.NewUnstartedServer(mux) // HTTP/1.1 over TLS
				server.StartTLS()
				defer server.Close()
				defer close(release)

				var opts []connect.ClientOption
				switch protocol {
				case "grpc":
					opts = append(opts, connect.WithGRPC())
				case "grpcweb":
					opts = append(opts, connect.WithGRPCWeb())
				}
				// The cause: the error of some other RPC, as errgroup would pass on.
				cause := connect.NewError(connect.CodeUnavailable, errors.New("sibling RPC failed"))
				want := connect.CodeCanceled
				if kind == "deadline" {
					want = connect.CodeDeadlineExceeded
				}
				// newCtx returns a context and a function that ends it (with the
				// cause) once the handler is known to be running.
				newCtx := func() (context.Context, func(), context.CancelFunc) {
					if kind == "cancel" {
						ctx, cancel := context.WithCancelCause(context.Background())
						return ctx, func() { cancel(cause) }, func() { cancel(nil) }
					}
					// the deadline is long enough for the handler to start
					ctx, cancel := context.WithTimeoutCause(context.Background(), 300*time.Millisecond, cause)
					return ctx, func() {}, cancel
				}

				t.Run("unary_waiting_for_response", func(t *testing.T) {
					client := connect.NewClient[pingv1.PingRequest, pingv1.PingResponse](server.Client(), server.URL+"/ping", opts...)
					ctx, end, cleanup := newCtx()
					defer cleanup()
					go func() {
						<-started
						time.Sleep(50 * time.Millisecond) // let the client block waiting for the response
						end()
					}()
					_, err := client.CallUnary(ctx, connect.NewRequest(&pingv1.PingRequest{}))
					if ctx.Err() == nil {
						t.Fatalf("test setup: call returned (%v) before the context ended", err)
					}
					if err == nil || connect.CodeOf(err) != want {
						t.Errorf("context ended (ctx.Err() = %v, cause = %v) while the unary call was waiting for the response: "+
							"C15 expects code %v, observed code %v (error: %v)", ctx.Err(), context.Cause(ctx), want, connect.CodeOf(err), err)
					}
				})
				t.Run("server_stream_blocked_in_receive", func(t *testing.T) {
					client := connect.NewClient[pingv1.CountUpRequest, pingv1.CountUpResponse](server.Client(), server.URL+"/count", opts...)
					ctx, end, cleanup := newCtx()
					defer cleanup()
					stream, err := client.CallServerStream(ctx, connect.NewRequest(&pingv1.CountUpRequest{}))
					if err != nil {
						t.Fatalf("test setup: CallServerStream: %v", err)
					}
					defer stream.Close()
					go func() {
						<-started
						time.Sleep(50 * time.Millisecond) // let the client block in Receive
						end()
					}()
					received := 0
					for stream.Receive() {
						received++
					}
					err = stream.Err()
					if ctx.Err() == nil {
						t.Fatalf("test setup: stream ended (%v) before the context ended", err)
					}
					if err == nil || connect.CodeOf(err) != want {
						t.Errorf("context ended (ctx.Err() = %v, cause = %v) while Receive was blocked (after %d messages): "+
							"C15 expects code %v, observed code %v (error: %v)", ctx.Err(), context.Cause(ctx), received, want, connect.CodeOf(err), err)
					}
				})
			})
		}
	}
}
