package connect_test

import (
	"bytes"
	"context"
	"encoding/binary"
	"encoding/json"
	"io"
	"net/http"
	"net/http/httptest"
	"testing"

	connect "github.com/bufbuild/connect-go"
	pingv1 "github.com/bufbuild/connect-go/internal/gen/connect/ping/v1"
)

// C07: an undecodable payload must reach the peer as a documented error code in
// a response that is well-formed for the selected protocol.
//
// A JSON payload consisting of the single byte 0xFF is undecodable. protojson
// quotes the offending byte verbatim in its error text, so the *Error that the
// handler tries to report carries an invalid-UTF-8 message. Serializing that
// error with protojson then fails, and the Connect protocol code silently gives
// up: the streaming response is an empty 200 without any EndStream envelope, and
// the unary response is a 400 with "Content-Type: application/json" and no body.
func TestAuditC07aFinding1(t *testing.T) {
	t.Parallel()
	clientStream := connect.NewClientStreamHandler(
		"/connect.ping.v1.PingService/Sum",
		func(_ context.Context, stream *connect.ClientStream[pingv1.SumRequest]) (*connect.Response[pingv1.SumResponse], error) {
			for stream.Receive() {
			}
			if err := stream.Err(); err != nil {
				return nil, err
			}
			return connect.NewResponse(&pingv1.SumResponse{}), nil
		},
	)
	unary := connect.NewUnaryHandler(
		"/connect.ping.v1.PingService/Ping",
		func(_ context.Context, _ *connect.Request[pingv1.PingRequest]) (*connect.Response[pingv1.PingResponse], error) {
			return connect.NewResponse(&pingv1.PingResponse{}), nil
		},
	)
	payload := []byte{0xFF}

	t.Run("connect_streaming", func(t *testing.T) {
		envelope := make([]byte, 5, 5+len(payload))
		binary.BigEndian.PutUint32(envelope[1:], uint32(len(payload)))
		envelope = append(envelope, payload...)
		request := httptest.NewRequest(http.MethodPost, "/connect.ping.v1.PingService/Sum", bytes.NewReader(envelope))
		request.Header.Set("Content-Type", "application/connect+json")
		recorder := httptest.NewRecorder()
		clientStream.ServeHTTP(recorder, request)
		response := recorder.Result()
		body, _ := io.ReadAll(response.Body)
		t.Logf("status=%d header=%v body=%q", response.StatusCode, response.Header, body)
		// A well-formed Connect streaming response is a sequence of envelopes whose
		// last one has the EndStream flag (0b10) and a JSON payload.
		if len(body) < 5 {
			t.Fatalf("C07 violated: expected a Connect streaming response ending in an EndStream envelope "+
				"carrying {\"error\":{\"code\":\"invalid_argument\",...}}; observed HTTP %d with a %d-byte body %q "+
				"(no EndStream envelope at all, so the peer cannot learn any error code)",
				response.StatusCode, len(body), body)
		}
		if body[0]&0b10 == 0 {
			t.Fatalf("C07 violated: first envelope has flags %08b, expected EndStream", body[0])
		}
		var end struct {
			Error *struct {
				Code string `json:"code"`
			} `json:"error"`
		}
		if err := json.Unmarshal(body[5:], &end); err != nil || end.Error == nil || end.Error.Code != "invalid_argument" {
			t.Fatalf("C07 violated: expected EndStream error code invalid_argument, observed payload %q (err %v)", body[5:], err)
		}
	})

	t.Run("connect_unary", func(t *testing.T) {
		request := httptest.NewRequest(http.MethodPost, "/connect.ping.v1.PingService/Ping", bytes.NewReader(payload))
		request.Header.Set("Content-Type", "application/json")
		recorder := httptest.NewRecorder()
		unary.ServeHTTP(recorder, request)
		response := recorder.Result()
		body, _ := io.ReadAll(response.Body)
		t.Logf("status=%d header=%v body=%q", response.StatusCode, response.Header, body)
		if response.StatusCode == http.StatusOK {
			t.Fatalf("C07 violated: undecodable payload answered with 200")
		}
		var wire struct {
			Code string `json:"code"`
		}
		if err := json.Unmarshal(body, &wire); err != nil || wire.Code != "invalid_argument" {
			t.Fatalf("C07 violated: expected a Connect unary error response whose application/json body is "+
				"{\"code\":\"invalid_argument\",...}; observed HTTP %d, Content-Type %q, body %q (json error: %v)",
				response.StatusCode, response.Header.Get("Content-Type"), body, err)
		}
	})
}
