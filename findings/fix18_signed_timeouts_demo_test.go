package connect

import (
	"net/http"
	"net/http/httptest"
	"testing"
)

// The timeout grammars are strings of digits (plus a unit for gRPC). A sign is
// not a digit: such values are malformed and must be rejected as
// invalid_argument without running user code (C10).
func TestFindingSignedTimeouts(t *testing.T) {
	for _, v := range []string{"+5S", "-0S", "+0n", "+1H", "-5m"} {
		if d, err := grpcParseTimeout(v); err == nil {
			t.Errorf("grpcParseTimeout(%q) = %v, nil; want an error (malformed: sign is not a digit)", v, d)
		}
	}
	h := &connectHandler{}
	for _, v := range []string{"+5000", "-5", "-0", "+0"} {
		req := httptest.NewRequest(http.MethodPost, "/x", nil)
		req.Header.Set("Connect-Timeout-Ms", v)
		_, cancel, err := h.SetTimeout(req)
		if cancel != nil {
			cancel()
		}
		if err == nil || CodeOf(err) != CodeInvalidArgument {
			t.Errorf("Connect-Timeout-Ms: %q accepted (err=%v); want invalid_argument (malformed: sign is not a digit)", v, err)
		}
	}
}
