package connect_test

import (
	"context"
	"fmt"
	"net/http"
	"net/http/httptest"
	"testing"
	"time"

	connect "github.com/bufbuild/connect-go"
	pingv1 "github.com/bufbuild/connect-go/internal/gen/connect/ping/v1"
	"google.golang.org/protobuf/types/known/anypb"
)

// C06: "For any HTTP response whatsoever - any status, headers, trailers and
// body bytes - every client call terminates ..." x {connect, grpc, grpc-web} x
// {proto, json} x {unary, ...}.
//
// A 200 response whose body is the six bytes {"":} makes a JSON-codec client
// whose response message type is google.protobuf.Any spin forever inside
// protoJSONCodec.Unmarshal: the call never returns, not even when its context
// deadline passes.
func TestAuditC06vFinding1(t *testing.T) {
	payload := []byte(`{"":}`)
	envelope := func(flags byte, data []byte) []byte {
		out := []byte{flags, 0, 0, 0, byte(len(data))}
		return append(out, data...)
	}
	cases := []struct {
		name        string
		contentType string
		body        []byte
		opts        []connect.ClientOption
	}{
		{
			name:        "connect/json/unary",
			contentType: "application/json",
			body:        payload,
			opts:        []connect.ClientOption{connect.WithProtoJSON()},
		},
		{
			name:        "grpc-web/json/unary",
			contentType: "application/grpc-web+json",
			body:        append(envelope(0, payload), envelope(0x80, []byte("grpc-status: 0\r\n"))...),
			opts:        []connect.ClientOption{connect.WithProtoJSON(), connect.WithGRPCWeb()},
		},
	}
	for _, tc := range cases {
		tc := tc
		t.Run(tc.name, func(t *testing.T) {
			server := httptest.NewServer(http.HandlerFunc(func(w http.ResponseWriter, r *http.Request) {
				w.Header().Set("Content-Type", tc.contentType)
				w.WriteHeader(http.StatusOK)
				_, _ = w.Write(tc.body)
			}))
			defer server.Close()
			client := connect.NewClient[pingv1.PingRequest, anypb.Any](
				server.Client(),
				server.URL+"/connect.ping.v1.PingService/Ping",
				tc.opts...,
			)
			type result struct {
				err error
			}
			done := make(chan result, 1)
			go func() {
				ctx, cancel := context.WithTimeout(context.Background(), 500*time.Millisecond)
				defer cancel()
				_, err := client.CallUnary(ctx, connect.NewRequest(&pingv1.PingRequest{}))
				done <- result{err}
			}()
			select {
			case res := <-done:
				// Terminated: the property then only asks for success or a coded error.
				if res.err != nil {
					if code := connect.CodeOf(res.err); code == 0 {
						t.Errorf("C06: expected a non-OK code, got %v (%v)", code, res.err)
					}
				}
			case <-time.After(5 * time.Second):
				t.Errorf("C06 violated: expected CallUnary to terminate (with success or a coded non-OK error) for a 200 response with body %q; "+
					"observed: the call had not returned 5s after it started and 4.5s after its context deadline (%s)",
					tc.body, fmt.Sprint("it spins in protojson via protoJSONCodec.Unmarshal"))
			}
		})
	}
}
