package connect_test

import (
	"context"
	"errors"
	"net/http"
	"net/http/httptest"
	"reflect"
	"testing"

	connect "github.com/bufbuild/connect-go"
	pingv1 "github.com/bufbuild/connect-go/internal/gen/connect/ping/v1"
	"github.com/bufbuild/connect-go/internal/gen/connect/ping/v1/pingv1connect"
	"google.golang.org/protobuf/types/known/anypb"
)

// The handler fails with an error that carries metadata and a detail that
// cannot be serialized (an Any whose type URL is not valid UTF-8, so the
// binary google.rpc.Status cannot be marshalled).
type auditC11uF1Server struct {
	pingv1connect.UnimplementedPingServiceHandler
}

func auditC11uF1Meta() http.Header {
	return http.Header{
		"X-Err-Multi":    {"b", "a, c", "b"},
		"X-Err-Data-Bin": {connect.EncodeBinaryHeader([]byte{0, 1, 2, 255}), connect.EncodeBinaryHeader([]byte("ab"))},
	}
}

func auditC11uF1Err() error {
	e := connect.NewError(connect.CodeResourceExhausted, errors.New("boom"))
	for k, v := range auditC11uF1Meta() {
		e.Meta()[k] = v
	}
	e.AddDetail(&anypb.Any{TypeUrl: "type.googleapis.com/\xff", Value: []byte("x")})
	return e
}

func (s *auditC11uF1Server) Ping(context.Context, *connect.Request[pingv1.PingRequest]) (*connect.Response[pingv1.PingResponse], error) {
	return nil, auditC11uF1Err()
}

func (s *auditC11uF1Server) CountUp(_ context.Context, req *connect.Request[pingv1.CountUpRequest], stream *connect.ServerStream[pingv1.CountUpResponse]) error {
	if req.Header().Get("X-Mode") == "after" {
		if err := stream.Send(&pingv1.CountUpResponse{Number: 1}); err != nil {
			return err
		}
	}
	return auditC11uF1Err()
}

func TestAuditC11uFinding1(t *testing.T) {
	mux := http.NewServeMux()
	mux.Handle(pingv1connect.NewPingServiceHandler(&auditC11uF1Server{}))
	server := httptest.NewUnstartedServer(mux)
	server.EnableHTTP2 = true
	server.StartTLS()
	defer server.Close()

	check := func(t *testing.T, where string, err error) {
		t.Helper()
		var connectErr *connect.Error
		if !errors.As(err, &connectErr) {
			t.Fatalf("%s: expected the call to fail with a *connect.Error, got %v", where, err)
		}
		for k, want := range auditC11uF1Meta() {
			if got := connectErr.Meta()[k]; !reflect.DeepEqual(got, want) {
				t.Errorf("%s: C11 expects the metadata the handler set on its error to be visible in the client's error metadata: key %s expected %q, observed %q (client error: %v)",
					where, k, want, got, err)
			}
		}
	}
	for _, proto := range []struct {
		name string
		opts []connect.ClientOption
	}{
		{"connect(control)", nil},
		{"grpc", []connect.ClientOption{connect.WithGRPC()}},
		{"grpcweb", []connect.ClientOption{connect.WithGRPCWeb()}},
	} {
		client := pingv1connect.NewPingServiceClient(server.Client(), server.URL, proto.opts...)
		t.Run(proto.name+"/unary", func(t *testing.T) {
			_, err := client.Ping(context.Background(), connect.NewRequest(&pingv1.PingRequest{}))
			check(t, proto.name+" unary", err)
		})
		for _, mode := range []string{"before", "after"} {
			mode := mode
			t.Run(proto.name+"/serverstream/error-"+mode+"-first-message", func(t *testing.T) {
				req := connect.NewRequest(&pingv1.CountUpRequest{Number: 1})
				req.Header().Set("X-Mode", mode)
				stream, err := client.CountUp(context.Background(), req)
				if err != nil {
					t.Fatal(err)
				}
				defer stream.Close()
				for stream.Receive() {
				}
				check(t, proto.name+" server stream, error "+mode+" first message", stream.Err())
			})
		}
	}
}
