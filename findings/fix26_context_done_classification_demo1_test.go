package connect_test

import (
	"context"
	"errors"
	"net/http"
	"net/http/httptest"
	"testing"
	"time"

	"github.com/bufbuild/connect-go"
	pingv1 "github.com/bufbuild/connect-go/internal/gen/connect/ping/v1"
	"github.com/bufbuild/connect-go/internal/gen/connect/ping/v1/pingv1connect"
)

// C15, finding 1: when the call's context is cancelled (or its deadline
// passes) and the context carries a *cause* (context.WithCancelCause,
// context.WithTimeoutCause), net/http's HTTP/1.1 transport reports
// context.Cause(ctx) instead of ctx.Err(). connect classifies failures only by
// errors.Is(err, context.Canceled / context.DeadlineExceeded) on the
// transport's error and never consults ctx.Err(), so the call fails with
// "unavailable" (waiting for the response) or "invalid_argument" (blocked
// Receive) instead of canceled / deadline_exceeded.

type auditC15aF1Server struct {
	pingv1connect.UnimplementedPingServiceHandler
}

// The handlers deliberately ignore their context, so that the client's own
// context (not the deadline propagated to the server) is what ends the call.

func (auditC15aF1Server) Ping(context.Context, *connect.Request[pingv1.PingRequest]) (*connect.Response[pingv1.PingResponse], error) {
	time.Sleep(500 * time.Millisecond)
	return connect.NewResponse(&pingv1.PingResponse{}), nil
}

func (auditC15aF1Server) CountUp(_ context.Context, _ *connect.Request[pingv1.CountUpRequest], stream *connect.ServerStream[pingv1.CountUpResponse]) error {
	if err := stream.Send(&pingv1.CountUpResponse{Number: 1}); err != nil {
		return err
	}
	time.Sleep(500 * time.Millisecond)
	return nil
}

func TestAuditC15aFinding1(t *testing.T) {
	mux := http.NewServeMux()
	mux.Handle(pingv1connect.NewPingServiceHandler(auditC15aF1Server{}))
	server := httptest.NewServer(mux) // HTTP/1.1
	defer server.Close()
	h2server := httptest.NewUnstartedServer(mux)
	h2server.EnableHTTP2 = true
	h2server.StartTLS()
	defer h2server.Close()

	protocols := []struct {
		name string
		opts []connect.ClientOption
	}{
		{"connect", nil},
		{"grpc", []connect.ClientOption{connect.WithGRPC()}},
		{"grpcweb", []connect.ClientOption{connect.WithGRPCWeb()}},
	}
	type mode struct {
		name string
		want connect.Code
		mk   func() (context.Context, func())
	}
	modes := []mode{
		{
			name: "cancel_with_cause",
			want: connect.CodeCanceled,
			mk: func() (context.Context, func()) {
				ctx, cancel := context.WithCancelCause(context.Background())
				timer := time.AfterFunc(150*time.Millisecond, func() { cancel(errors.New("user abort")) })
				return ctx, func() { timer.Stop(); cancel(nil) }
			},
		},
		{
			name: "deadline_with_cause",
			want: connect.CodeDeadlineExceeded,
			mk: func() (context.Context, func()) {
				ctx, cancel := context.WithTimeoutCause(context.Background(), 150*time.Millisecond, errors.New("too slow"))
				return ctx, cancel
			},
		},
	}
	for _, proto := range protocols {
		for _, m := range modes {
			proto, m := proto, m
			t.Run(proto.name+"/"+m.name+"/unary_waiting_for_response", func(t *testing.T) {
				client := pingv1connect.NewPingServiceClient(server.Client(), server.URL, proto.opts...)
				ctx, cleanup := m.mk()
				defer cleanup()
				_, err := client.Ping(ctx, connect.NewRequest(&pingv1.PingRequest{}))
				if ctxErr := ctx.Err(); ctxErr == nil {
					t.Fatalf("test setup: context should be done by now")
				}
				if err == nil {
					t.Fatalf("C15 violated: ctx.Err()=%v, property expects the unary call to fail with code %v, observed success", ctx.Err(), m.want)
				}
				if got := connect.CodeOf(err); got != m.want {
					t.Errorf("C15 violated: ctx.Err()=%v (cause %v); property expects CallUnary to fail with code %v, observed code %v (error: %v)",
						ctx.Err(), context.Cause(ctx), m.want, got, err)
				}
			})
			t.Run(proto.name+"/"+m.name+"/server_stream_blocked_receive", func(t *testing.T) {
				client := pingv1connect.NewPingServiceClient(server.Client(), server.URL, proto.opts...)
				ctx, cleanup := m.mk()
				defer cleanup()
				stream, err := client.CountUp(ctx, connect.NewRequest(&pingv1.CountUpRequest{Number: 1}))
				if err != nil {
					t.Fatalf("test setup: CountUp: %v", err)
				}
				defer stream.Close()
				if !stream.Receive() {
					t.Fatalf("test setup: first Receive failed: %v", stream.Err())
				}
				// This Receive blocks until the context ends.
				if stream.Receive() {
					t.Fatalf("C15 violated: second Receive succeeded although the handler sent only one message")
				}
				err = stream.Err()
				if err == nil {
					t.Fatalf("C15 violated: ctx.Err()=%v, property expects Receive to fail with code %v, observed clean end of stream", ctx.Err(), m.want)
				}
				if got := connect.CodeOf(err); got != m.want {
					t.Errorf("C15 violated: ctx.Err()=%v (cause %v); property expects the interrupted Receive to fail with code %v, observed code %v (error: %v)",
						ctx.Err(), context.Cause(ctx), m.want, got, err)
				}
			})
		}
		// "Before the call": the context is already done (with a cause) when the
		// client-streaming call is made; the first operation is CloseAndReceive.
		// Here net/http reports the cause on HTTP/2 as well.
		for _, srv := range []struct {
			name   string
			server *httptest.Server
		}{{"http1", server}, {"http2", h2server}} {
			proto, srv := proto, srv
			t.Run(proto.name+"/"+srv.name+"/already_cancelled_with_cause/client_stream_close_and_receive", func(t *testing.T) {
				client := pingv1connect.NewPingServiceClient(srv.server.Client(), srv.server.URL, proto.opts...)
				ctx, cancel := context.WithCancelCause(context.Background())
				cancel(errors.New("user abort"))
				_, err := client.Sum(ctx).CloseAndReceive()
				if err == nil {
					t.Fatalf("C15 violated: call with an already cancelled context succeeded")
				}
				if got := connect.CodeOf(err); got != connect.CodeCanceled {
					t.Errorf("C15 violated: ctx.Err()=%v (cause %v) before the call; property expects CloseAndReceive to fail with code canceled, observed code %v (error: %v)",
						ctx.Err(), context.Cause(ctx), got, err)
				}
			})
		}
	}
}
