package connect_test

import (
	"compress/flate"
	"context"
	"io"
	"net/http"
	"net/http/httptest"
	"strings"
	"testing"

	"github.com/bufbuild/connect-go"
	pingv1 "github.com/bufbuild/connect-go/internal/gen/connect/ping/v1"
)

// A second algorithm next to the built-in gzip: raw DEFLATE.
type auditC08tF3FlateReader struct{ io.ReadCloser }

func (r *auditC08tF3FlateReader) Reset(src io.Reader) error {
	return r.ReadCloser.(flate.Resetter).Reset(src, nil)
}

func auditC08tF3NewDecompressor() connect.Decompressor {
	return &auditC08tF3FlateReader{flate.NewReader(strings.NewReader(""))}
}

func auditC08tF3NewCompressor() connect.Compressor {
	w, _ := flate.NewWriter(io.Discard, flate.DefaultCompression)
	return w
}

// Property C08: compression is negotiated so that both sides can decode; the
// handler compresses a response only with an algorithm that the client used for
// its request or advertised.
//
// The clients take care that a Request whose header map was used before (sent
// compressed by another client, or forwarded from an incoming call) does not
// go out labelled with an encoding that the sending client doesn't apply - but
// only on the unary path, where the protocol headers are written over the
// Request's header map. CallServerStream writes the protocol headers into a
// fresh map and THEN merges the Request's own header map into it, so encoding
// and accept-encoding headers left in the Request are sent as they are. A
// client that supports gzip only and has no send compression configured then
// tells the server that it used (and accepts) deflate; a server that knows
// deflate answers in deflate, and the client cannot decode the response.
func TestAuditC08tFinding3(t *testing.T) {
	text := strings.Repeat("compressible ", 50)
	withDeflate := connect.WithCompression("deflate", auditC08tF3NewDecompressor, auditC08tF3NewCompressor)
	echoStream := func(_ context.Context, r *connect.Request[pingv1.PingRequest], s *connect.ServerStream[pingv1.PingResponse]) error {
		return s.Send(&pingv1.PingResponse{Text: r.Msg.Text})
	}
	mux := http.NewServeMux()
	mux.Handle("/unary", connect.NewUnaryHandler("/unary",
		func(_ context.Context, r *connect.Request[pingv1.PingRequest]) (*connect.Response[pingv1.PingResponse], error) {
			return connect.NewResponse(&pingv1.PingResponse{Text: r.Msg.Text}), nil
		}, withDeflate))
	mux.Handle("/stream", connect.NewServerStreamHandler("/stream", echoStream, withDeflate))
	server := httptest.NewUnstartedServer(mux)
	server.EnableHTTP2 = true
	server.StartTLS()
	defer server.Close()

	// The clients under test: gzip only (the default), no send compression.
	plainStream := func(opts ...connect.ClientOption) *connect.Client[pingv1.PingRequest, pingv1.PingResponse] {
		return connect.NewClient[pingv1.PingRequest, pingv1.PingResponse](server.Client(), server.URL+"/stream", opts...)
	}
	deflateOpts := connect.WithClientOptions(
		connect.WithAcceptCompression("deflate", auditC08tF3NewDecompressor, auditC08tF3NewCompressor),
		connect.WithSendCompression("deflate"),
	)
	callStream := func(client *connect.Client[pingv1.PingRequest, pingv1.PingResponse], request *connect.Request[pingv1.PingRequest]) (string, http.Header, error) {
		stream, err := client.CallServerStream(context.Background(), request)
		if err != nil {
			return "", nil, err
		}
		defer stream.Close()
		var got string
		for stream.Receive() {
			got = stream.Msg().Text
		}
		return got, stream.ResponseHeader(), stream.Err()
	}

	t.Run("grpc-web, Request used before by a client that compresses with deflate", func(t *testing.T) {
		// First use of the Request: a unary call by a client that compresses with
		// deflate. This leaves Grpc-Encoding: deflate in request.Header().
		deflateClient := connect.NewClient[pingv1.PingRequest, pingv1.PingResponse](
			server.Client(), server.URL+"/unary", connect.WithGRPCWeb(), deflateOpts)
		request := connect.NewRequest(&pingv1.PingRequest{Text: text})
		control := connect.NewRequest(&pingv1.PingRequest{Text: text})
		for _, r := range []*connect.Request[pingv1.PingRequest]{request, control} {
			if _, err := deflateClient.CallUnary(context.Background(), r); err != nil {
				t.Fatalf("first use of the request: %v", err)
			}
			if got := r.Header().Get("Grpc-Encoding"); got != "deflate" {
				t.Fatalf("after the first use the request's header has Grpc-Encoding=%q, the test expects deflate", got)
			}
		}
		// Control: the unary path of a gzip-only client copes with such a Request.
		plainUnary := connect.NewClient[pingv1.PingRequest, pingv1.PingResponse](
			server.Client(), server.URL+"/unary", connect.WithGRPCWeb())
		if res, err := plainUnary.CallUnary(context.Background(), control); err != nil || res.Msg.Text != text {
			t.Fatalf("control: unary re-use of the request by a gzip-only client: %v", err)
		}
		// The streaming path doesn't.
		got, header, err := callStream(plainStream(connect.WithGRPCWeb()), request)
		if err != nil || got != text {
			t.Errorf("a gzip-only client without send compression re-sends a Request whose header map still names "+
				"deflate from an earlier call. By C08 the exchange must be decodable by both sides (response in an "+
				"algorithm this client used or advertised - gzip - or uncompressed); observed: the call "+
				"failed with: %v (response headers the client kept: %v)", err, header)
		}
	})

	t.Run("connect, Request forwarded by a proxying handler", func(t *testing.T) {
		upstream := plainStream() // gzip only, no send compression
		var upstreamErr error
		proxyMux := http.NewServeMux()
		proxyMux.Handle("/proxy", connect.NewServerStreamHandler("/proxy",
			func(_ context.Context, r *connect.Request[pingv1.PingRequest], s *connect.ServerStream[pingv1.PingResponse]) error {
				got, _, err := callStream(upstream, r) // forward the incoming request as it is
				upstreamErr = err
				if err != nil {
					return err
				}
				return s.Send(&pingv1.PingResponse{Text: got})
			}, withDeflate))
		proxy := httptest.NewUnstartedServer(proxyMux)
		proxy.EnableHTTP2 = true
		proxy.StartTLS()
		defer proxy.Close()
		// The end client talks deflate to the proxy, which is fine: the proxy supports it.
		endClient := connect.NewClient[pingv1.PingRequest, pingv1.PingResponse](proxy.Client(), proxy.URL+"/proxy", deflateOpts)
		got, _, err := callStream(endClient, connect.NewRequest(&pingv1.PingRequest{Text: text}))
		if err != nil || got != text {
			t.Errorf("a handler forwards its incoming Request (sent to it deflate-compressed) through a gzip-only client "+
				"without send compression. By C08 that client's exchange with the upstream server must be decodable by "+
				"both sides (response in gzip or uncompressed); observed: upstream call failed with: "+
				"%v (end-to-end error: %v)", upstreamErr, err)
		}
	})
}
