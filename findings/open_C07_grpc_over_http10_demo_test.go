package connect_test

import (
	"bytes"
	"context"
	"fmt"
	"io"
	"net"
	"net/http/httptest"
	"strings"
	"testing"
	"time"

	connect "github.com/bufbuild/connect-go"
	pingv1 "github.com/bufbuild/connect-go/internal/gen/connect/ping/v1"
)

// C07 quantifies over the HTTP version. A gRPC (application/grpc) request sent
// over HTTP/1.0 is accepted by Handler.ServeHTTP (only bidi streams are refused
// with 505), but the gRPC status is written exclusively as HTTP trailers, and
// net/http cannot send trailers on an HTTP/1.0 response. The peer therefore
// receives "200 OK, Content-Type: application/grpc" with no grpc-status at all:
// not a well-formed gRPC response, and a malformed request is indistinguishable
// from a successful one.
func TestAuditC07aFinding3(t *testing.T) {
	t.Parallel()
	handler := connect.NewUnaryHandler(
		"/connect.ping.v1.PingService/Ping",
		func(_ context.Context, req *connect.Request[pingv1.PingRequest]) (*connect.Response[pingv1.PingResponse], error) {
			return connect.NewResponse(&pingv1.PingResponse{Number: req.Msg.Number}), nil
		},
	)
	server := httptest.NewServer(handler)
	defer server.Close()

	// Envelope promising 2 bytes of payload that are not a valid protobuf
	// message: over HTTP/1.1 or HTTP/2 this is answered with grpc-status 3.
	malformed := []byte{0, 0, 0, 0, 2, 0xFF, 0xFF}

	roundTrip := func(t *testing.T, proto string) string {
		t.Helper()
		conn, err := net.Dial("tcp", server.Listener.Addr().String())
		if err != nil {
			t.Fatal(err)
		}
		defer conn.Close()
		_ = conn.SetDeadline(time.Now().Add(5 * time.Second))
		var request bytes.Buffer
		fmt.Fprintf(&request, "POST /connect.ping.v1.PingService/Ping %s\r\n", proto)
		fmt.Fprintf(&request, "Host: example.com\r\nConnection: close\r\nContent-Type: application/grpc\r\n")
		fmt.Fprintf(&request, "Content-Length: %d\r\n\r\n", len(malformed))
		request.Write(malformed)
		if _, err := conn.Write(request.Bytes()); err != nil {
			t.Fatal(err)
		}
		raw, _ := io.ReadAll(conn)
		return string(raw)
	}

	// Sanity: over HTTP/1.1 the error is reported.
	http11 := roundTrip(t, "HTTP/1.1")
	if !strings.Contains(strings.ToLower(http11), "grpc-status: 3") {
		t.Fatalf("unexpected HTTP/1.1 behaviour, wanted grpc-status 3 in the trailers: %q", http11)
	}

	http10 := roundTrip(t, "HTTP/1.0")
	t.Logf("raw HTTP/1.0 response: %q", http10)
	statusLine := strings.SplitN(http10, "\r\n", 2)[0]
	bare505 := strings.Contains(statusLine, " 505 ")
	hasStatus := strings.Contains(strings.ToLower(http10), "grpc-status:")
	if !bare505 && !hasStatus {
		t.Fatalf("C07 violated: for an application/grpc request over HTTP/1.0 carrying an undecodable payload, expected "+
			"either a bare 505 or a gRPC response that reports grpc-status 3 (invalid_argument); observed %q with no "+
			"grpc-status header or trailer anywhere in the response: %q", statusLine, http10)
	}
}
