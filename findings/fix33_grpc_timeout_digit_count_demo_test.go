package connect

import "testing"

// The gRPC timeout grammar allows at most 8 digits; longer numerals are
// malformed whatever their value (C10, C07).
func TestFindingGRPCTimeoutDigitCount(t *testing.T) {
	for _, v := range []string{"000000001S", "0000000000000000000000005m", "000000005S"} {
		if d, err := grpcParseTimeout(v); err == nil {
			t.Errorf("grpcParseTimeout(%q) = %v, nil; want an error (more than 8 digits)", v, d)
		}
	}
	if d, err := grpcParseTimeout("00000005S"); err != nil || d.Seconds() != 5 {
		t.Errorf("grpcParseTimeout(\"00000005S\") = %v, %v; 8 digits are grammatical", d, err)
	}
}
