package connect_test

import (
	"context"
	"encoding/binary"
	"errors"
	"fmt"
	"io"
	"net/http"
	"net/http/httptest"
	"testing"

	connect "github.com/bufbuild/connect-go"
	pingv1 "github.com/bufbuild/connect-go/internal/gen/connect/ping/v1"
	"github.com/bufbuild/connect-go/internal/gen/connect/ping/v1/pingv1connect"
)

// C06: "For any HTTP response whatsoever ... every client call terminates
// without panicking and either succeeds or returns an error that can be
// inspected as a Connect error".
//
// compressionOption.applyToClient intends to ignore options with nil
// constructors (`o.CompressionPool == nil`), and the documentation of the
// sibling WithCompression says "Calling WithCompression with an empty name or
// nil constructors is a no-op". But newCompressionPool never returns nil, so
// WithAcceptCompression(name, nil, nil) registers a pool whose constructors are
// nil: the client advertises the encoding, and as soon as a server answers
// with it the client calls a nil function and panics.
func TestAuditC06aFinding2(t *testing.T) {
	t.Parallel()
	envelope := func(flags byte, data []byte) []byte {
		out := make([]byte, 5+len(data))
		out[0] = flags
		binary.BigEndian.PutUint32(out[1:5], uint32(len(data)))
		copy(out[5:], data)
		return out
	}
	newServer := func(header http.Header, body []byte) *httptest.Server {
		return httptest.NewServer(http.HandlerFunc(func(w http.ResponseWriter, r *http.Request) {
			_, _ = io.Copy(io.Discard, r.Body)
			for k, v := range header {
				w.Header()[k] = v
			}
			w.WriteHeader(http.StatusOK)
			_, _ = w.Write(body)
		}))
	}
	// run executes a client call and converts a panic into a test failure.
	run := func(t *testing.T, call func() error) {
		t.Helper()
		var (
			err      error
			panicked any
		)
		func() {
			defer func() { panicked = recover() }()
			err = call()
		}()
		if panicked != nil {
			t.Errorf(
				"property expects the call to succeed or to return a coded non-OK *connect.Error without panicking; "+
					"observed panic: %v", panicked,
			)
			return
		}
		if err == nil {
			return // success is allowed
		}
		var connectErr *connect.Error
		if !errors.As(err, &connectErr) || connectErr.Code() == 0 {
			t.Errorf("property expects a coded non-OK *connect.Error, observed %v", err)
		}
	}
	acceptBr := connect.WithAcceptCompression("br", nil, nil)

	t.Run("connect_unary", func(t *testing.T) {
		t.Parallel()
		server := newServer(http.Header{"Content-Encoding": {"br"}}, []byte("some brotli bytes"))
		defer server.Close()
		client := pingv1connect.NewPingServiceClient(server.Client(), server.URL, acceptBr)
		run(t, func() error {
			_, err := client.Ping(context.Background(), connect.NewRequest(&pingv1.PingRequest{}))
			return err
		})
	})
	t.Run("connect_server_stream", func(t *testing.T) {
		t.Parallel()
		server := newServer(
			http.Header{"Connect-Content-Encoding": {"br"}},
			envelope(1 /* compressed */, []byte("some brotli bytes")),
		)
		defer server.Close()
		client := pingv1connect.NewPingServiceClient(server.Client(), server.URL, acceptBr)
		run(t, func() error {
			stream, err := client.CountUp(context.Background(), connect.NewRequest(&pingv1.CountUpRequest{}))
			if err != nil {
				return err
			}
			defer stream.Close()
			for stream.Receive() {
			}
			return stream.Err()
		})
	})
	t.Run("grpc_web_unary", func(t *testing.T) {
		t.Parallel()
		server := newServer(
			http.Header{"Grpc-Encoding": {"br"}},
			envelope(1 /* compressed */, []byte("some brotli bytes")),
		)
		defer server.Close()
		client := pingv1connect.NewPingServiceClient(server.Client(), server.URL, acceptBr, connect.WithGRPCWeb())
		run(t, func() error {
			_, err := client.Ping(context.Background(), connect.NewRequest(&pingv1.PingRequest{}))
			if err != nil {
				return fmt.Errorf("ping: %w", err)
			}
			return nil
		})
	})
}
