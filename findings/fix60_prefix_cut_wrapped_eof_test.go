package connect_test

import (
	"context"
	"errors"
	"fmt"
	"io"
	"net/http"
	"net/http/httptest"
	"testing"

	connect "github.com/bufbuild/connect-go"
	pingv1 "github.com/bufbuild/connect-go/internal/gen/connect/ping/v1"
	"github.com/bufbuild/connect-go/internal/gen/connect/ping/v1/pingv1connect"
)

// auditC04tF1Body delivers data and then fails with a transport error whose
// chain contains io.EOF (for example a net.OpError-like "read ...: EOF").
type auditC04tF1Body struct {
	data []byte
	pos  int
	err  error
}

func (b *auditC04tF1Body) Read(p []byte) (int, error) {
	if b.pos >= len(b.data) {
		return 0, b.err
	}
	n := copy(p, b.data[b.pos:])
	b.pos += n
	return n, nil
}

func (b *auditC04tF1Body) Close() error { return nil }

type auditC04tF1Handler struct {
	pingv1connect.UnimplementedPingServiceHandler

	sawCleanEnd bool
	streamErr   error
	msgs        []int64
}

func (h *auditC04tF1Handler) Sum(
	_ context.Context,
	stream *connect.ClientStream[pingv1.SumRequest],
) (*connect.Response[pingv1.SumResponse], error) {
	var sum int64
	for stream.Receive() {
		h.msgs = append(h.msgs, stream.Msg().Number)
		sum += stream.Msg().Number
	}
	if err := stream.Err(); err != nil {
		h.streamErr = err
		return nil, err
	}
	h.sawCleanEnd = true
	return connect.NewResponse(&pingv1.SumResponse{Sum: sum}), nil
}

// C04: "a handler never sees a clean end of the request stream when the
// request body failed or stopped mid-message".
func TestAuditC04tFinding1(t *testing.T) {
	// One complete envelope: SumRequest{number: 1}.
	message := []byte{0, 0, 0, 0, 2, 0x08, 0x01}
	transportErr := fmt.Errorf("read tcp 10.0.0.1:443->10.0.0.2:51234: %w", io.EOF)
	cases := []struct {
		name string
		body []byte
	}{
		{"fails 2 bytes into the second envelope's prefix", append(append([]byte{}, message...), 0, 0)},
		{"fails 4 bytes into the first envelope's prefix", []byte{0, 0, 0, 0}},
		{"fails between two envelopes", message},
	}
	contentTypes := []string{"application/connect+proto", "application/grpc", "application/grpc-web"}
	for _, contentType := range contentTypes {
		for _, testCase := range cases {
			handler := &auditC04tF1Handler{}
			mux := http.NewServeMux()
			mux.Handle(pingv1connect.NewPingServiceHandler(handler))
			request := httptest.NewRequest(
				http.MethodPost,
				"http://example.com/connect.ping.v1.PingService/Sum",
				&auditC04tF1Body{data: testCase.body, err: transportErr},
			)
			request.ContentLength = -1
			request.Header.Set("Content-Type", contentType)
			recorder := httptest.NewRecorder()
			mux.ServeHTTP(recorder, request)
			if handler.sawCleanEnd {
				t.Errorf(
					"%s, request body %s with transport error %q: property C04 expects the handler's "+
						"stream to end with a coded error (the request body failed, not ended); observed "+
						"ClientStream.Receive()==false with Err()==nil, i.e. a clean end of the request "+
						"after messages %v, and the handler answered successfully (HTTP %d, body %q, trailers %v)",
					contentType, testCase.name, transportErr, handler.msgs,
					recorder.Code, recorder.Body.String(), recorder.Result().Trailer,
				)
				continue
			}
			var connectErr *connect.Error
			if !errors.As(handler.streamErr, &connectErr) {
				t.Errorf("%s, %s: uncoded error %v", contentType, testCase.name, handler.streamErr)
			}
		}
	}
}
