package connect_test

import (
	"bytes"
	"context"
	"net/http"
	"net/http/httptest"
	"testing"

	"github.com/bufbuild/connect-go"
	pingv1 "github.com/bufbuild/connect-go/internal/gen/connect/ping/v1"
)

// C12: when a request is served, user code and interceptors "observe a Spec
// carrying the procedure and stream type the handler was built with". The
// function the user passes to WithRecover is installed as an interceptor and is
// documented to receive the Spec. For the three streaming handler kinds it
// receives the zero Spec (no procedure, stream type "unary") instead.
func TestAuditC12aFinding2(t *testing.T) {
	const procedure = "/connect.ping.v1.PingService/X"
	var observed []connect.Spec
	recoverOpt := connect.WithRecover(func(_ context.Context, spec connect.Spec, _ http.Header, _ any) error {
		observed = append(observed, spec)
		return connect.NewError(connect.CodeInternal, nil)
	})
	type testCase struct {
		name        string
		streamType  connect.StreamType
		contentType string
		body        []byte
		handler     *connect.Handler
	}
	envelope := []byte{0, 0, 0, 0, 0} // one enveloped, empty message
	cases := []testCase{
		{
			name: "unary (control)", streamType: connect.StreamTypeUnary, contentType: "application/proto", body: nil,
			handler: connect.NewUnaryHandler(procedure, func(context.Context, *connect.Request[pingv1.PingRequest]) (*connect.Response[pingv1.PingResponse], error) {
				panic("boom") // nolint:forbidigo
			}, recoverOpt),
		},
		{
			name: "client stream", streamType: connect.StreamTypeClient, contentType: "application/connect+proto", body: envelope,
			handler: connect.NewClientStreamHandler(procedure, func(context.Context, *connect.ClientStream[pingv1.PingRequest]) (*connect.Response[pingv1.PingResponse], error) {
				panic("boom") // nolint:forbidigo
			}, recoverOpt),
		},
		{
			name: "server stream", streamType: connect.StreamTypeServer, contentType: "application/grpc-web+proto", body: envelope,
			handler: connect.NewServerStreamHandler(procedure, func(context.Context, *connect.Request[pingv1.PingRequest], *connect.ServerStream[pingv1.PingResponse]) error {
				panic("boom") // nolint:forbidigo
			}, recoverOpt),
		},
		{
			name: "bidi stream", streamType: connect.StreamTypeBidi, contentType: "application/grpc", body: envelope,
			handler: connect.NewBidiStreamHandler(procedure, func(context.Context, *connect.BidiStream[pingv1.PingRequest, pingv1.PingResponse]) error {
				panic("boom") // nolint:forbidigo
			}, recoverOpt),
		},
	}
	for _, testCase := range cases {
		observed = nil
		request := httptest.NewRequest(http.MethodPost, "https://example.com/some/prefix"+procedure, bytes.NewReader(testCase.body))
		request.Proto, request.ProtoMajor, request.ProtoMinor = "HTTP/2.0", 2, 0
		request.Header.Set("Content-Type", testCase.contentType)
		testCase.handler.ServeHTTP(httptest.NewRecorder(), request)
		want := connect.Spec{StreamType: testCase.streamType, Procedure: procedure}
		if len(observed) != 1 {
			t.Errorf("%s handler: expected the WithRecover function to run exactly once, observed %d runs", testCase.name, len(observed))
			continue
		}
		if observed[0] != want {
			t.Errorf("%s handler built with procedure %q and stream type %v: C12 expects the WithRecover function (an interceptor's user code) "+
				"to observe Spec %+v; observed Spec %+v",
				testCase.name, procedure, testCase.streamType, want, observed[0])
		}
	}
}
