package connect

import (
	"context"
	"io"
	"net/http"
	"net/http/httptest"
	"testing"

	pingv1 "github.com/bufbuild/connect-go/internal/gen/connect/ping/v1"
)

// C18: "text that is neither a defined name nor of the form code_<number> is
// rejected", where the text form is that of a 32-bit code value. Code.UnmarshalText
// parses the number with 64 bits and converts it to the 32-bit Code without a
// range check, so text that is the text form of no code at all is accepted and
// silently reduced mod 2^32 - even onto the defined codes, whose numeric
// spelling (code_1 .. code_16) the function otherwise rejects.
func TestAuditC18yFinding1(t *testing.T) {
	for _, text := range []string{
		"code_4294967296",          // 2^32     -> Code(0)
		"code_4294967297",          // 2^32 + 1 -> CodeCanceled
		"code_4294967299",          // 2^32 + 3 -> CodeInvalidArgument
		"code_9223372036854775807", // MaxInt64 -> Code(4294967295)
	} {
		var code Code = 99
		err := code.UnmarshalText([]byte(text))
		if err == nil {
			back, _ := code.MarshalText()
			t.Errorf("UnmarshalText(%q): expected an error (it is not a defined name and its number is not a 32-bit code value, so it is the text form of no Code); observed err=nil and Code=%d, whose text form is %q",
				text, uint32(code), back)
		}
	}

	// Reachability: a Connect unary error response carrying such a code is
	// presented to the caller as a genuine CodeCanceled.
	server := httptest.NewServer(http.HandlerFunc(func(w http.ResponseWriter, r *http.Request) {
		_, _ = io.Copy(io.Discard, r.Body)
		w.Header().Set("Content-Type", "application/json")
		w.WriteHeader(http.StatusInternalServerError)
		_, _ = io.WriteString(w, `{"code":"code_4294967297","message":"boom"}`)
	}))
	defer server.Close()
	client := NewClient[pingv1.PingRequest, pingv1.PingResponse](server.Client(), server.URL+"/connect.ping.v1.PingService/Ping")
	_, err := client.CallUnary(context.Background(), NewRequest(&pingv1.PingRequest{}))
	if err == nil {
		t.Fatal("expected an error from the call")
	}
	if got := CodeOf(err); got == CodeCanceled {
		t.Errorf("Connect client, error body with \"code\":\"code_4294967297\": expected the invalid code text to be rejected (the call then reports the code derived from HTTP 500, unknown); observed CodeOf(err)=%v, err=%v", got, err)
	}
}
