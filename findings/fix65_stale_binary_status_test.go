package connect_test

import (
	"bytes"
	"context"
	"encoding/binary"
	"errors"
	"io"
	"net/http"
	"net/http/httptest"
	"testing"

	connect "github.com/bufbuild/connect-go"
	pingv1 "github.com/bufbuild/connect-go/internal/gen/connect/ping/v1"
	statusv1 "github.com/bufbuild/connect-go/internal/gen/connectext/grpc/status/v1"
	"google.golang.org/protobuf/proto"
	"google.golang.org/protobuf/reflect/protoreflect"
)

// auditC05vF5Detail is an ErrorDetail that isn't an *anypb.Any and that can't
// be packed into one (its string field holds invalid UTF-8).
type auditC05vF5Detail struct {
	*pingv1.PingRequest
}

func (d auditC05vF5Detail) MessageName() protoreflect.FullName {
	return d.PingRequest.ProtoReflect().Descriptor().FullName()
}

func (d auditC05vF5Detail) UnmarshalTo(proto.Message) error { return errors.New("unsupported") }

// A proxying handler calls an upstream gRPC server, gets an error back and
// answers with an error of its own that carries the upstream error's metadata
// (the documented way to pass metadata on) plus a detail. The metadata of an
// error received over gRPC includes the upstream response's grpc-status,
// grpc-message and grpc-status-details-bin. grpcErrorToTrailer merges the
// metadata into the trailers first and then overwrites the protocol's own keys
// - but on the path where the error can't be serialized it overwrites only
// grpc-status and grpc-message. The response then carries the *upstream's*
// grpc-status-details-bin next to the handler's own grpc-status: two
// contradictory statuses, and peers that prefer the binary status (grpc-go,
// and this library's client) decode an error the handler never returned.
func TestAuditC05vFinding5(t *testing.T) {
	t.Parallel()
	// What an upstream gRPC server's "not found" looks like in Error.Meta() of
	// the error a connect gRPC client returns.
	upstreamStatus, err := proto.Marshal(&statusv1.Status{Code: int32(connect.CodeNotFound), Message: "upstream: no such user"})
	if err != nil {
		t.Fatal(err)
	}
	upstreamMeta := http.Header{
		"Content-Type":            {"application/grpc+proto"},
		"Grpc-Status":             {"5"},
		"Grpc-Message":            {"upstream: no such user"},
		"Grpc-Status-Details-Bin": {connect.EncodeBinaryHeader(upstreamStatus)},
		"X-Upstream-Request-Id":   {"u-1"},
	}
	mux := http.NewServeMux()
	mux.Handle("/connect.ping.v1.PingService/Ping", connect.NewUnaryHandler(
		"/connect.ping.v1.PingService/Ping",
		func(_ context.Context, _ *connect.Request[pingv1.PingRequest]) (*connect.Response[pingv1.PingResponse], error) {
			proxyErr := connect.NewError(connect.CodeUnavailable, errors.New("proxy: upstream failed"))
			for key, values := range upstreamMeta {
				proxyErr.Meta()[key] = values
			}
			proxyErr.AddDetail(auditC05vF5Detail{&pingv1.PingRequest{Text: "\xff"}})
			return nil, proxyErr
		},
	))
	server := httptest.NewUnstartedServer(mux)
	server.EnableHTTP2 = true
	server.StartTLS()
	defer server.Close()

	payload, err := proto.Marshal(&pingv1.PingRequest{Number: 1})
	if err != nil {
		t.Fatal(err)
	}
	body := make([]byte, 5+len(payload))
	binary.BigEndian.PutUint32(body[1:5], uint32(len(payload)))
	copy(body[5:], payload)
	request, err := http.NewRequest(http.MethodPost, server.URL+"/connect.ping.v1.PingService/Ping", bytes.NewReader(body))
	if err != nil {
		t.Fatal(err)
	}
	request.Header.Set("Content-Type", "application/grpc+proto")
	request.Header.Set("Te", "trailers")
	response, err := server.Client().Do(request)
	if err != nil {
		t.Fatal(err)
	}
	if _, err := io.Copy(io.Discard, response.Body); err != nil {
		t.Fatal(err)
	}
	response.Body.Close()
	trailer := response.Trailer
	if len(trailer.Values("Grpc-Status")) != 1 {
		t.Fatalf("expected exactly one grpc-status, got %v", trailer)
	}
	t.Logf("grpc-status=%q grpc-message=%q", trailer.Get("Grpc-Status"), trailer.Get("Grpc-Message"))
	if bin := trailer.Get("Grpc-Status-Details-Bin"); bin != "" {
		raw, err := connect.DecodeBinaryHeader(bin)
		if err != nil {
			t.Fatal(err)
		}
		var status statusv1.Status
		if err := proto.Unmarshal(raw, &status); err != nil {
			t.Fatal(err)
		}
		if got := trailer.Get("Grpc-Status"); got != "" && int32(mustAtoiAuditC05vF5(t, got)) != status.Code {
			t.Errorf(
				"property C05 (exactly one status; the response yields the status and error the handler produced): "+
					"the trailers say grpc-status=%s grpc-message=%q, expected grpc-status-details-bin to be absent or "+
					"to encode the same status; observed a grpc-status-details-bin encoding code=%d message=%q "+
					"(the upstream error's, copied from the error's metadata)",
				got, trailer.Get("Grpc-Message"), status.Code, status.Message,
			)
		}
	}

	// The library's own client decodes the stale binary status.
	client := connect.NewClient[pingv1.PingRequest, pingv1.PingResponse](
		server.Client(),
		server.URL+"/connect.ping.v1.PingService/Ping",
		connect.WithGRPC(),
	)
	_, callErr := client.CallUnary(context.Background(), connect.NewRequest(&pingv1.PingRequest{}))
	if code := connect.CodeOf(callErr); code != connect.CodeInternal && code != connect.CodeUnavailable {
		t.Errorf(
			"property C05: the handler returned an unavailable error that can't be serialized, so the client was "+
				"expected to see code internal (or unavailable); observed %v: %v",
			code, callErr,
		)
	}
}

func mustAtoiAuditC05vF5(t *testing.T, s string) int {
	t.Helper()
	n := 0
	for _, c := range s {
		if c < '0' || c > '9' {
			t.Fatalf("not a number: %q", s)
		}
		n = n*10 + int(c-'0')
	}
	return n
}
