package connect_test

import (
	"bytes"
	"compress/gzip"
	"context"
	"errors"
	"fmt"
	"net/http"
	"net/http/httptest"
	"strings"
	"testing"

	"github.com/bufbuild/connect-go"
	pingv1 "github.com/bufbuild/connect-go/internal/gen/connect/ping/v1"
	"github.com/bufbuild/connect-go/internal/gen/connect/ping/v1/pingv1connect"
)

type auditC09rF1PingServer struct {
	pingv1connect.UnimplementedPingServiceHandler

	messageSize int
}

func (s auditC09rF1PingServer) Ping(
	context.Context,
	*connect.Request[pingv1.PingRequest],
) (*connect.Response[pingv1.PingResponse], error) {
	return nil, connect.NewError(
		connect.CodePermissionDenied,
		errors.New(strings.Repeat("e", s.messageSize)),
	)
}

// TestAuditC09rFinding1: a Connect unary client configured with
// WithReadMaxBytes(N) reads, decompresses and delivers the body of a non-200
// response without any bound: validateResponse builds a second
// connectUnaryUnmarshaler without readMaxBytes.
func TestAuditC09rFinding1(t *testing.T) {
	t.Parallel()
	const readMaxBytes = 1024

	t.Run("error_body_from_connect_handler", func(t *testing.T) {
		t.Parallel()
		const messageSize = 1 << 20 // 1 MiB >> N
		mux := http.NewServeMux()
		mux.Handle(pingv1connect.NewPingServiceHandler(auditC09rF1PingServer{messageSize: messageSize}))
		server := httptest.NewServer(mux)
		t.Cleanup(server.Close)
		client := pingv1connect.NewPingServiceClient(
			server.Client(),
			server.URL,
			connect.WithReadMaxBytes(readMaxBytes),
		)
		_, err := client.Ping(context.Background(), connect.NewRequest(&pingv1.PingRequest{}))
		if err == nil {
			t.Fatal("expected an error")
		}
		var connectErr *connect.Error
		if !errors.As(err, &connectErr) {
			t.Fatalf("expected *connect.Error, got %T", err)
		}
		if got := len(connectErr.Message()); got > 2*readMaxBytes {
			t.Errorf(
				"C09 violated (Connect unary client, error response): expected that with WithReadMaxBytes(%d) "+
					"the client neither buffers nor delivers substantially more than %d bytes sent by the peer for one call "+
					"(the call should fail with the read-limit error, as it does for a %d-byte end-of-stream error in the streaming protocols); "+
					"observed: code %v with a message of %d bytes taken from a %d-byte response body and handed to the application",
				readMaxBytes, readMaxBytes, messageSize, connectErr.Code(), got, messageSize,
			)
		}
	})

	t.Run("highly_compressible_error_body", func(t *testing.T) {
		t.Parallel()
		const decompressedSize = 32 << 20 // 32 MiB of JSON
		var compressed bytes.Buffer
		gzipWriter := gzip.NewWriter(&compressed)
		fmt.Fprint(gzipWriter, `{"code":"internal","message":"`)
		chunk := []byte(strings.Repeat("z", 1<<20))
		for i := 0; i < decompressedSize>>20; i++ {
			if _, err := gzipWriter.Write(chunk); err != nil {
				t.Fatal(err)
			}
		}
		fmt.Fprint(gzipWriter, `"}`)
		if err := gzipWriter.Close(); err != nil {
			t.Fatal(err)
		}
		wireSize := compressed.Len()
		server := httptest.NewServer(http.HandlerFunc(func(w http.ResponseWriter, r *http.Request) {
			w.Header().Set("Content-Type", "application/json")
			w.Header().Set("Content-Encoding", "gzip")
			w.WriteHeader(http.StatusInternalServerError)
			_, _ = w.Write(compressed.Bytes())
		}))
		t.Cleanup(server.Close)
		client := pingv1connect.NewPingServiceClient(
			server.Client(),
			server.URL,
			connect.WithReadMaxBytes(readMaxBytes),
		)
		_, err := client.Ping(context.Background(), connect.NewRequest(&pingv1.PingRequest{}))
		if err == nil {
			t.Fatal("expected an error")
		}
		var connectErr *connect.Error
		if !errors.As(err, &connectErr) {
			t.Fatalf("expected *connect.Error, got %T", err)
		}
		if got := len(connectErr.Message()); got > 2*readMaxBytes {
			t.Errorf(
				"C09 violated (Connect unary client, gzip-compressed error response): expected that with WithReadMaxBytes(%d) "+
					"a peer cannot make the client buffer substantially more than %d bytes by sending a highly compressible payload; "+
					"observed: a %d-byte body (already > limit) was read in full, inflated to more than %d bytes in memory, "+
					"and delivered to the application as a %v error with a %d-byte message",
				readMaxBytes, readMaxBytes, wireSize, decompressedSize, connectErr.Code(), got,
			)
		}
	})
}
