package connect_test

import (
	"context"
	"io"
	"net/http"
	"net/http/httptest"
	"testing"
	"time"

	connect "github.com/bufbuild/connect-go"
	pingv1 "github.com/bufbuild/connect-go/internal/gen/connect/ping/v1"
)

// A Connect unary error response (non-200) carries the error as a JSON body.
// If the call's context ends while that body is still arriving, the call must
// fail with canceled / deadline_exceeded (C15), not with the code derived from
// the HTTP status.
func TestFindingUnaryErrorBodyInterrupted(t *testing.T) {
	for _, kind := range []string{"cancel", "deadline"} {
		kind := kind
		t.Run(kind, func(t *testing.T) {
			stalled := make(chan struct{})
			release := make(chan struct{})
			server := httptest.NewUnstartedServer(http.HandlerFunc(func(w http.ResponseWriter, r *http.Request) {
				_, _ = io.Copy(io.Discard, r.Body)
				w.Header().Set("Content-Type", "application/json")
				w.WriteHeader(http.StatusServiceUnavailable)
				_, _ = w.Write([]byte(`{"code":"unavailable","mess`))
				w.(http.Flusher).Flush()
				close(stalled)
				select {
				case <-release:
				case <-r.Context().Done():
				}
			}))
			server.EnableHTTP2 = true
			server.StartTLS()
			defer server.Close()
			defer close(release)
			client := connect.NewClient[pingv1.PingRequest, pingv1.PingResponse](
				server.Client(),
				server.URL+"/connect.ping.v1.PingService/Ping",
			)
			var (
				ctx    context.Context
				cancel context.CancelFunc
				want   connect.Code
			)
			if kind == "cancel" {
				ctx, cancel = context.WithCancel(context.Background())
				want = connect.CodeCanceled
				go func() {
					<-stalled
					time.Sleep(150 * time.Millisecond)
					cancel()
				}()
			} else {
				ctx, cancel = context.WithTimeout(context.Background(), 500*time.Millisecond)
				want = connect.CodeDeadlineExceeded
			}
			defer cancel()
			_, err := client.CallUnary(ctx, connect.NewRequest(&pingv1.PingRequest{Number: 1}))
			if err == nil {
				t.Fatalf("call succeeded unexpectedly")
			}
			if got := connect.CodeOf(err); got != want {
				t.Fatalf("unary call interrupted by %s while reading the error body: got code %v (%v), want %v", kind, got, err, want)
			}
		})
	}
}
