package connect_test

import (
	"context"
	"net/http"
	"net/http/httptest"
	"strings"
	"testing"

	connect "github.com/bufbuild/connect-go"
	pingv1 "github.com/bufbuild/connect-go/internal/gen/connect/ping/v1"
	"google.golang.org/protobuf/proto"
)

// Property C09: with a read limit of N bytes on a client, every message of at
// most N bytes is accepted, at every position in a stream and in every
// protocol. The limit applies "to each Protobuf message" (WithReadMaxBytes
// docs).
//
// Observed: the read limit is also applied to the protocol's own
// end-of-stream envelope (gRPC-Web trailers block, Connect end-stream JSON),
// which is not a message. A call whose only message is far below N fails with
// "message size X is larger than configured max N", where X is the size of the
// trailers block.
func TestAuditC09aFinding1(t *testing.T) {
	const readMaxBytes = 64
	const procedure = "/connect.ping.v1.PingService/"

	mux := http.NewServeMux()
	mux.Handle(procedure+"Ping", connect.NewUnaryHandler(
		procedure+"Ping",
		func(_ context.Context, req *connect.Request[pingv1.PingRequest]) (*connect.Response[pingv1.PingResponse], error) {
			res := connect.NewResponse(&pingv1.PingResponse{Text: req.Msg.Text})
			// Perfectly ordinary trailing metadata; in total a bit more than 64 bytes.
			res.Trailer().Set("X-Request-Cost", strings.Repeat("7", 60))
			return res, nil
		},
	))
	mux.Handle(procedure+"CountUp", connect.NewServerStreamHandler(
		procedure+"CountUp",
		func(_ context.Context, req *connect.Request[pingv1.CountUpRequest], stream *connect.ServerStream[pingv1.CountUpResponse]) error {
			stream.ResponseTrailer().Set("X-Request-Cost", strings.Repeat("7", 60))
			for i := int64(1); i <= req.Msg.Number; i++ {
				if err := stream.Send(&pingv1.CountUpResponse{Number: i}); err != nil {
					return err
				}
			}
			return nil
		},
	))
	server := httptest.NewServer(mux)
	defer server.Close()

	t.Run("grpcweb_unary", func(t *testing.T) {
		client := connect.NewClient[pingv1.PingRequest, pingv1.PingResponse](
			server.Client(),
			server.URL+procedure+"Ping",
			connect.WithGRPCWeb(),
			connect.WithReadMaxBytes(readMaxBytes),
		)
		want := &pingv1.PingResponse{Text: "hi"}
		if size := proto.Size(want); size > readMaxBytes {
			t.Fatalf("test bug: response message is %d bytes", size)
		}
		res, err := client.CallUnary(context.Background(), connect.NewRequest(&pingv1.PingRequest{Text: "hi"}))
		if err != nil {
			t.Fatalf("C09 expects: response message of %d bytes <= read limit %d is accepted and delivered; "+
				"observed: call failed with %q (code %v)", proto.Size(want), readMaxBytes, err, connect.CodeOf(err))
		}
		if res.Msg.Text != "hi" {
			t.Fatalf("unexpected response %v", res.Msg)
		}
	})

	t.Run("connect_server_stream", func(t *testing.T) {
		client := connect.NewClient[pingv1.CountUpRequest, pingv1.CountUpResponse](
			server.Client(),
			server.URL+procedure+"CountUp",
			connect.WithReadMaxBytes(readMaxBytes),
		)
		stream, err := client.CallServerStream(context.Background(), connect.NewRequest(&pingv1.CountUpRequest{Number: 3}))
		if err != nil {
			t.Fatal(err)
		}
		defer stream.Close()
		var got int
		for stream.Receive() {
			got++
		}
		if err := stream.Err(); err != nil {
			t.Fatalf("C09 expects: a stream whose %d messages are all 2 bytes (<= read limit %d) is accepted and ends cleanly; "+
				"observed: after %d messages the stream failed with %q (code %v)", 3, readMaxBytes, got, err, connect.CodeOf(err))
		}
		if got != 3 {
			t.Fatalf("got %d messages, want 3", got)
		}
	})
}
