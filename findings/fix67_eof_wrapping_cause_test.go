package connect_test

import (
	"context"
	"errors"
	"fmt"
	"io"
	"net/http"
	"net/http/httptest"
	"testing"
	"time"

	"github.com/bufbuild/connect-go"
	pingv1 "github.com/bufbuild/connect-go/internal/gen/connect/ping/v1"
)

// C15: a call whose context is cancelled while it is waiting for the response
// or blocked in Receive must fail with code canceled.
//
// When the context is cancelled with a cause that wraps io.EOF (for example
// "the stream this call depends on ended": cancel(fmt.Errorf("upstream
// closed: %w", io.EOF))), net/http's HTTP/1 transport fails the call with
// that cause. The library then reads the error as the clean end of the
// response instead of as a cancellation:
//   - duplexHTTPCall.Read passes anything that wraps io.EOF through unwrapped,
//   - envelopeReader.Read takes an error that wraps io.EOF (even one that is
//     already coded canceled) for the end of the stream,
//
// so the call fails with "internal: ... no Grpc-Status trailer" or
// "internal: protocol error: unexpected EOF".
func TestAuditC15uFinding2(t *testing.T) {
	for _, protocol := range []string{"connect", "grpc", "grpcweb"} {
		protocol := protocol
		t.Run(protocol, func(t *testing.T) {
			started := make(chan struct{}, 2)
			release := make(chan struct{})
			mux := http.NewServeMux()
			mux.Handle("/ping", connect.NewUnaryHandler("/ping", func(ctx context.Context, _ *connect.Request[pingv1.PingRequest]) (*connect.Response[pingv1.PingResponse], error) {
				started <- struct{}{}
				select {
				case <-ctx.Done():
				case <-release:
				}
				return nil, connect.NewError(connect.CodeAborted, errors.New("handler released"))
			}))
			mux.Handle("/count", connect.NewServerStreamHandler("/count", func(ctx context.Context, _ *connect.Request[pingv1.CountUpRequest], stream *connect.ServerStream[pingv1.CountUpResponse]) error {
				if err := stream.Send(&pingv1.CountUpResponse{Number: 1}); err != nil {
					return err
				}
				started <- struct{}{}
				select {
				case <-ctx.Done():
				case <-release:
				}
				return connect.NewError(connect.CodeAborted, errors.New("handler released"))
			}))
			server := httptest.NewUnstartedServer(mux) // HTTP/1.1 over TLS
			server.StartTLS()
			defer server.Close()
			defer close(release)

			var opts []connect.ClientOption
			switch protocol {
			case "grpc":
				opts = append(opts, connect.WithGRPC())
			case "grpcweb":
				opts = append(opts, connect.WithGRPCWeb())
			}
			cause := fmt.Errorf("upstream closed: %w", io.EOF)

			t.Run("unary_waiting_for_response", func(t *testing.T) {
				client := connect.NewClient[pingv1.PingRequest, pingv1.PingResponse](server.Client(), server.URL+"/ping", opts...)
				ctx, cancel := context.WithCancelCause(context.Background())
				defer cancel(nil)
				go func() {
					<-started
					time.Sleep(50 * time.Millisecond) // let the client block waiting for the response
					cancel(cause)
				}()
				_, err := client.CallUnary(ctx, connect.NewRequest(&pingv1.PingRequest{}))
				if ctx.Err() == nil {
					t.Fatalf("test setup: call returned (%v) before the context ended", err)
				}
				if err == nil || connect.CodeOf(err) != connect.CodeCanceled {
					t.Errorf("context cancelled (ctx.Err() = %v, cause = %q) while the unary call was waiting for the response: "+
						"C15 expects code canceled, observed code %v (error: %v)", ctx.Err(), context.Cause(ctx), connect.CodeOf(err), err)
				}
			})
			t.Run("server_stream_blocked_in_receive", func(t *testing.T) {
				client := connect.NewClient[pingv1.CountUpRequest, pingv1.CountUpResponse](server.Client(), server.URL+"/count", opts...)
				ctx, cancel := context.WithCancelCause(context.Background())
				defer cancel(nil)
				stream, err := client.CallServerStream(ctx, connect.NewRequest(&pingv1.CountUpRequest{}))
				if err != nil {
					t.Fatalf("test setup: CallServerStream: %v", err)
				}
				defer stream.Close()
				go func() {
					<-started
					time.Sleep(50 * time.Millisecond) // let the client block in Receive
					cancel(cause)
				}()
				received := 0
				for stream.Receive() {
					received++
				}
				err = stream.Err()
				if ctx.Err() == nil {
					t.Fatalf("test setup: stream ended (%v) before the context ended", err)
				}
				if err == nil || connect.CodeOf(err) != connect.CodeCanceled {
					t.Errorf("context cancelled (ctx.Err() = %v, cause = %q) while Receive was blocked (after %d messages): "+
						"C15 expects code canceled, observed code %v (error: %v)", ctx.Err(), context.Cause(ctx), received, connect.CodeOf(err), err)
				}
			})
		})
	}
}
