package connect_test

import (
	"context"
	"net/http"
	"net/http/httptest"
	"sync"
	"testing"
	"time"

	connect "github.com/bufbuild/connect-go"
	pingv1 "github.com/bufbuild/connect-go/internal/gen/connect/ping/v1"
	"github.com/bufbuild/connect-go/internal/gen/connect/ping/v1/pingv1connect"
)

// auditC10xF1Server records the deadline the Sum handler's context has.
type auditC10xF1Server struct {
	pingv1connect.UnimplementedPingServiceHandler

	mu          sync.Mutex
	ran         bool
	hasDeadline bool
}

func (s *auditC10xF1Server) Sum(
	ctx context.Context,
	stream *connect.ClientStream[pingv1.SumRequest],
) (*connect.Response[pingv1.SumResponse], error) {
	s.mu.Lock()
	s.ran = true
	_, s.hasDeadline = ctx.Deadline()
	s.mu.Unlock()
	for stream.Receive() {
	}
	return connect.NewResponse(&pingv1.SumResponse{}), nil
}

// auditC10xF1Client is an HTTPClient that behaves like a network hop: the
// server only learns what the request's headers say, not the client's
// context. It records the headers of the request that goes out.
type auditC10xF1Client struct {
	handler http.Handler

	mu   sync.Mutex
	sent http.Header
	done chan struct{}
}

func (c *auditC10xF1Client) Do(req *http.Request) (*http.Response, error) {
	defer close(c.done)
	c.mu.Lock()
	c.sent = req.Header.Clone()
	c.mu.Unlock()
	serverSide := req.Clone(context.Background())
	recorder := httptest.NewRecorder()
	c.handler.ServeHTTP(recorder, serverSide)
	return recorder.Result(), nil
}

// A client-streaming call is made under a context with a (positive) deadline.
// The HTTP request goes out on the first Send, which happens a little after
// the deadline has passed. C10 says the timeout sent is never longer than the
// time remaining, and that the handler's context gets the corresponding
// deadline. The gRPC client sends "0n" in this situation; the Connect client
// sends no timeout at all, which tells the server "no deadline".
func TestAuditC10xFinding1(t *testing.T) {
	t.Parallel()
	run := func(t *testing.T, headerName string, opts ...connect.ClientOption) (sent http.Header, ran, hasDeadline bool) {
		t.Helper()
		server := &auditC10xF1Server{}
		mux := http.NewServeMux()
		mux.Handle(pingv1connect.NewPingServiceHandler(server))
		httpClient := &auditC10xF1Client{handler: mux, done: make(chan struct{})}
		client := pingv1connect.NewPingServiceClient(httpClient, "http://localhost", opts...)

		ctx, cancel := context.WithTimeout(context.Background(), 20*time.Millisecond)
		defer cancel()
		stream := client.Sum(ctx)                      // call has a deadline 20ms away
		time.Sleep(40 * time.Millisecond)              // the deadline passes before anything is sent
		_ = stream.Send(&pingv1.SumRequest{Number: 1}) // this is what sends the HTTP request
		_, _ = stream.CloseAndReceive()
		select {
		case <-httpClient.done:
		case <-time.After(5 * time.Second):
			t.Fatal("the HTTP request was never handed to the HTTPClient")
		}
		httpClient.mu.Lock()
		sent = httpClient.sent
		httpClient.mu.Unlock()
		server.mu.Lock()
		ran, hasDeadline = server.ran, server.hasDeadline
		server.mu.Unlock()
		t.Logf("%s sent: %q; handler ran: %v; handler context has a deadline: %v",
			headerName, sent.Values(headerName), ran, hasDeadline)
		return sent, ran, hasDeadline
	}

	// Control: gRPC tells the server that no time is left.
	t.Run("grpc_control", func(t *testing.T) {
		sent, ran, hasDeadline := run(t, "Grpc-Timeout", connect.WithGRPC())
		if got := sent.Values("Grpc-Timeout"); len(got) != 1 || got[0] != "0n" {
			t.Errorf("gRPC: expected Grpc-Timeout [0n], got %q", got)
		}
		if ran && !hasDeadline {
			t.Errorf("gRPC: handler ran without a deadline")
		}
	})

	t.Run("connect", func(t *testing.T) {
		sent, ran, hasDeadline := run(t, "Connect-Timeout-Ms")
		got := sent.Values("Connect-Timeout-Ms")
		if len(got) == 0 {
			t.Errorf("C10 violated (timeout sent is never longer than the time remaining): "+
				"the client call had a deadline (20ms, already passed when the request went out), "+
				"expected the request to carry a Connect-Timeout-Ms header no longer than the time remaining (i.e. \"0\"), "+
				"observed no Connect-Timeout-Ms header at all (= unbounded); request headers: %v", sent)
		}
		if ran && !hasDeadline {
			t.Errorf("C10 violated (handler's context gets the corresponding deadline; deadlines are never extended): " +
				"the client call had a deadline, expected the handler's context to have one, " +
				"observed the handler running with a context that has NO deadline")
		}
	})
}
