package connect_test

import (
	"context"
	"errors"
	"io"
	"net/http"
	"net/http/httptest"
	"reflect"
	"testing"

	connect "github.com/bufbuild/connect-go"
	pingv1 "github.com/bufbuild/connect-go/internal/gen/connect/ping/v1"
)

// C11: trailers the handler sets must be visible to the client "with values
// unchanged and per-key order preserved" (and, on failure, in the error's
// metadata). With the Connect streaming protocol, every call to Receive after
// the end of the response merges the end-of-stream metadata into
// ResponseTrailer() (and into the error's metadata) once more, so the client
// observes a multimap the handler never set.
func TestAuditC11tFinding1(t *testing.T) {
	want := []string{"t1", "t2"}
	mux := http.NewServeMux()
	mux.Handle("/ok", connect.NewBidiStreamHandler("/ok",
		func(_ context.Context, stream *connect.BidiStream[pingv1.PingRequest, pingv1.PingResponse]) error {
			for _, v := range want {
				stream.ResponseTrailer().Add("X-Trail", v)
			}
			for {
				if _, err := stream.Receive(); err != nil {
					break
				}
			}
			return stream.Send(&pingv1.PingResponse{Number: 1})
		}))
	mux.Handle("/fail", connect.NewBidiStreamHandler("/fail",
		func(_ context.Context, stream *connect.BidiStream[pingv1.PingRequest, pingv1.PingResponse]) error {
			for _, v := range want {
				stream.ResponseTrailer().Add("X-Trail", v)
			}
			for {
				if _, err := stream.Receive(); err != nil {
					break
				}
			}
			if err := stream.Send(&pingv1.PingResponse{Number: 1}); err != nil {
				return err
			}
			return connect.NewError(connect.CodeAborted, errors.New("boom"))
		}))
	server := httptest.NewUnstartedServer(mux)
	server.EnableHTTP2 = true
	server.StartTLS()
	defer server.Close()

	for _, path := range []string{"/ok", "/fail"} {
		// Default protocol: Connect.
		client := connect.NewClient[pingv1.PingRequest, pingv1.PingResponse](server.Client(), server.URL+path)
		stream := client.CallBidiStream(context.Background())
		if err := stream.Send(&pingv1.PingRequest{}); err != nil {
			t.Fatalf("%s: send: %v", path, err)
		}
		if err := stream.CloseRequest(); err != nil {
			t.Fatalf("%s: close request: %v", path, err)
		}
		var endErr error
		for {
			if _, endErr = stream.Receive(); endErr != nil {
				break
			}
		}
		if path == "/ok" && !errors.Is(endErr, io.EOF) {
			t.Fatalf("%s: expected clean end of stream, got %v", path, endErr)
		}
		if got := stream.ResponseTrailer().Values("X-Trail"); !reflect.DeepEqual(got, want) {
			t.Fatalf("%s: trailers after the end of the stream: got %q, want %q", path, got, want)
		}
		// The stream has ended; asking again must not change what the handler sent.
		_, againErr := stream.Receive()
		if againErr == nil {
			t.Fatalf("%s: Receive after the end of the stream returned no error", path)
		}
		if got := stream.ResponseTrailer().Values("X-Trail"); !reflect.DeepEqual(got, want) {
			t.Errorf("%s: property C11 expects the client to see trailer X-Trail exactly as the handler set it, %q, "+
				"but after a second Receive at the end of the stream ResponseTrailer() has %q", path, want, got)
		}
		if path == "/fail" {
			var connectErr *connect.Error
			if !errors.As(againErr, &connectErr) {
				t.Fatalf("%s: not a *connect.Error: %v", path, againErr)
			}
			if got := connectErr.Meta().Values("X-Trail"); !reflect.DeepEqual(got, want) {
				t.Errorf("%s: property C11 expects the error's metadata to carry trailer X-Trail as the handler set it, %q, "+
					"but the error returned by the second Receive has %q", path, want, got)
			}
		}
		_ = stream.CloseResponse()
	}
}
