package connect_test

import (
	"context"
	"errors"
	"net/http"
	"net/http/httptest"
	"reflect"
	"strings"
	"testing"

	connect "github.com/bufbuild/connect-go"
	pingv1 "github.com/bufbuild/connect-go/internal/gen/connect/ping/v1"
)

// C11: on failure, what the handler set must be visible "at least in the
// error's metadata". A unary handler can only set headers on failure through
// the error's Meta(). With the Connect protocol these travel as plain HTTP
// response headers, which the client has in hand - but when it cannot decode
// the JSON error body (here: the body is longer than the client's
// WithReadMaxBytes), it falls back to an error built from the HTTP status
// alone and attaches no metadata at all.
func TestAuditC11tFinding2(t *testing.T) {
	want := []string{"m1", "m2"}
	wantBin := []string{connect.EncodeBinaryHeader([]byte{0, 1, 254, 255})}
	mux := http.NewServeMux()
	mux.Handle("/u", connect.NewUnaryHandler("/u",
		func(_ context.Context, _ *connect.Request[pingv1.PingRequest]) (*connect.Response[pingv1.PingResponse], error) {
			err := connect.NewError(connect.CodeAborted, errors.New(strings.Repeat("x", 300)))
			for _, v := range want {
				err.Meta().Add("X-Meta", v)
			}
			err.Meta()["X-Meta-Bin"] = wantBin
			return nil, err
		}))
	server := httptest.NewUnstartedServer(mux)
	server.EnableHTTP2 = true
	server.StartTLS()
	defer server.Close()

	protocols := []struct {
		name string
		opts []connect.ClientOption
	}{
		{"grpc", []connect.ClientOption{connect.WithGRPC()}},
		{"grpcweb", []connect.ClientOption{connect.WithGRPCWeb()}},
		{"connect", nil},
	}
	for _, protocol := range protocols {
		opts := append([]connect.ClientOption{connect.WithReadMaxBytes(128)}, protocol.opts...)
		client := connect.NewClient[pingv1.PingRequest, pingv1.PingResponse](server.Client(), server.URL+"/u", opts...)
		_, err := client.CallUnary(context.Background(), connect.NewRequest(&pingv1.PingRequest{}))
		if err == nil {
			t.Fatalf("%s: expected the call to fail", protocol.name)
		}
		var connectErr *connect.Error
		if !errors.As(err, &connectErr) {
			t.Fatalf("%s: not a *connect.Error: %v", protocol.name, err)
		}
		if got := connectErr.Meta().Values("X-Meta"); !reflect.DeepEqual(got, want) {
			t.Errorf("%s: property C11 expects the headers the handler set on a failed call in the error's metadata: "+
				"X-Meta = %q; the client's error is %q with X-Meta = %q (whole metadata: %v)",
				protocol.name, want, err.Error(), got, connectErr.Meta())
		}
		if got := connectErr.Meta().Values("X-Meta-Bin"); !reflect.DeepEqual(got, wantBin) {
			t.Errorf("%s: property C11 expects X-Meta-Bin = %q in the error's metadata, got %q",
				protocol.name, wantBin, got)
		}
	}
}
