package connect_test

import (
	"bytes"
	"context"
	"encoding/binary"
	"encoding/json"
	"io"
	"net/http"
	"net/http/httptest"
	"strings"
	"testing"

	connect "github.com/bufbuild/connect-go"
	pingv1 "github.com/bufbuild/connect-go/internal/gen/connect/ping/v1"
)

// A handler that forwards a call: it calls another server with one of this
// library's clients and returns the *connect.Response it got. That Response's
// Header() holds the HTTP headers of the upstream response, including what
// they say about the framing and encoding of the upstream body (Content-Type,
// Content-Length, Content-Encoding, Grpc-Encoding, ...). For errors the
// library filters these (mergeMetadataHeaders); for a successful response
// NewUnaryHandler merges them into its own response unfiltered.
func TestAuditC05uFinding4(t *testing.T) {
	t.Parallel()
	text := strings.Repeat("x", 200)
	upstreamMux := http.NewServeMux()
	upstreamMux.Handle("/up/Ping", connect.NewUnaryHandler("/up/Ping",
		func(_ context.Context, req *connect.Request[pingv1.PingRequest]) (*connect.Response[pingv1.PingResponse], error) {
			res := connect.NewResponse(&pingv1.PingResponse{Number: req.Msg.Number, Text: text})
			res.Header().Set("X-Upstream", "yes")
			return res, nil
		}))
	upstream := httptest.NewServer(upstreamMux)
	defer upstream.Close()
	// Default client: Connect protocol, binary codec, asks for gzip.
	upstreamClient := connect.NewClient[pingv1.PingRequest, pingv1.PingResponse](
		upstream.Client(), upstream.URL+"/up/Ping")

	proxyMux := http.NewServeMux()
	proxyMux.Handle("/proxy/Ping", connect.NewUnaryHandler("/proxy/Ping",
		func(ctx context.Context, req *connect.Request[pingv1.PingRequest]) (*connect.Response[pingv1.PingResponse], error) {
			return upstreamClient.CallUnary(ctx, connect.NewRequest(req.Msg))
		}))
	proxy := httptest.NewServer(proxyMux)
	defer proxy.Close()

	// The independent peer: plain net/http, no transparent decompression, and
	// it doesn't ask for compressed responses.
	peer := &http.Client{Transport: &http.Transport{DisableCompression: true}}
	payload := []byte(`{"number":"7"}`)
	enveloped := append([]byte{0, 0, 0, 0, byte(len(payload))}, payload...)

	type pingJSON struct {
		Number string `json:"number"`
		Text   string `json:"text"`
	}
	checkMessage := func(t *testing.T, raw []byte) {
		t.Helper()
		var got pingJSON
		if err := json.Unmarshal(raw, &got); err != nil {
			t.Errorf("property: the response message decodes to what the application supplied; observed undecodable JSON %q: %v", raw, err)
			return
		}
		if got.Number != "7" || got.Text != text {
			t.Errorf("property: the response message is {number:7, text:x*200}; observed %+v", got)
		}
	}

	for _, tc := range []struct {
		name, contentType string
		body              []byte
	}{
		{"connect_unary_json", "application/json", payload},
		{"grpcweb_json", "application/grpc-web+json", enveloped},
	} {
		tc := tc
		t.Run(tc.name, func(t *testing.T) {
			req, err := http.NewRequest(http.MethodPost, proxy.URL+"/proxy/Ping", bytes.NewReader(tc.body))
			if err != nil {
				t.Fatal(err)
			}
			req.Header.Set("Content-Type", tc.contentType)
			res, err := peer.Do(req)
			if err != nil {
				t.Fatalf("property: the handler's response is decodable by a spec-following peer; observed transport error: %v", err)
			}
			defer res.Body.Close()
			body, readErr := io.ReadAll(res.Body)
			if res.StatusCode != http.StatusOK {
				t.Errorf("property: a successful response is HTTP 200; observed %d", res.StatusCode)
			}
			if got := res.Header.Values("Content-Type"); len(got) != 1 || got[0] != tc.contentType {
				t.Errorf("property: the response Content-Type echoes the request's (%q, once); observed Content-Type values %q", tc.contentType, got)
			}
			if got := res.Header.Get("Content-Encoding"); got != "" && got != "identity" {
				t.Errorf("property: the response is decodable by a spec-following peer (which sent no Accept-Encoding, and for gRPC-Web never uses HTTP Content-Encoding); observed Content-Encoding: %q on a body starting %q", got, body[:minLen(len(body), 5)])
			}
			if readErr != nil {
				t.Errorf("property: the response body is complete and decodable; observed read error %v after %d bytes (Content-Length header: %q)", readErr, len(body), res.Header.Get("Content-Length"))
			}
			if tc.name == "connect_unary_json" {
				checkMessage(t, body)
				return
			}
			// gRPC-Web: one message frame, then one 0x80 trailers frame with
			// grpc-status: 0.
			if len(body) < 5 {
				t.Fatalf("property: the gRPC-Web body holds a message frame and a final 0x80 frame; observed %d bytes", len(body))
			}
			size := int(binary.BigEndian.Uint32(body[1:5]))
			if body[0] != 0 || len(body) < 5+size {
				t.Fatalf("property: the gRPC-Web body holds a complete message frame; observed flags %d, declared size %d, %d body bytes in total", body[0], size, len(body))
			}
			checkMessage(t, body[5:5+size])
			rest := body[5+size:]
			if len(rest) < 5 || rest[0] != 0x80 || strings.Count(strings.ToLower(string(rest[5:])), "grpc-status:") != 1 {
				t.Errorf("property: the gRPC-Web response ends with one 0x80 frame carrying exactly one grpc-status; observed %q", rest)
			}
		})
	}
}

func minLen(a, b int) int {
	if a < b {
		return a
	}
	return b
}
