package connect_test

import (
	"bytes"
	"context"
	"encoding/binary"
	"errors"
	"io"
	"net/http"
	"net/http/httptest"
	"testing"

	connect "github.com/bufbuild/connect-go"
	pingv1 "github.com/bufbuild/connect-go/internal/gen/connect/ping/v1"
	"google.golang.org/protobuf/proto"
)

// A request stream that stops in the middle of a message (the client ended the
// body - cleanly, as far as HTTP is concerned - after the envelope prefix and
// part of the payload, or inside the prefix). C04: the handler never sees a
// clean end of such a request stream. The handler below doesn't give up at the
// first error: it keeps calling Receive until it is told that the stream
// ended, and records how it was told.
func TestAuditC04rFinding2(t *testing.T) {
	payload, err := proto.Marshal(&pingv1.CumSumRequest{Number: 1234567})
	if err != nil {
		t.Fatal(err)
	}
	prefix := make([]byte, 5)
	binary.BigEndian.PutUint32(prefix[1:], uint32(len(payload)))
	complete := append(append([]byte{}, prefix...), payload...)

	bodies := map[string][]byte{
		"one complete message, then a second one cut inside its payload": append(append([]byte{}, complete...), complete[:len(complete)-2]...),
		"one complete message, then a second one cut inside its prefix":  append(append([]byte{}, complete...), complete[:3]...),
	}
	contentTypes := map[string]string{
		"Connect":  "application/connect+proto",
		"gRPC":     "application/grpc+proto",
		"gRPC-Web": "application/grpc-web+proto",
	}
	for protocolName, contentType := range contentTypes {
		for bodyName, body := range bodies {
			var (
				received     []int64
				receiveErrs  []error
				sawCleanEnd  bool
				receiveCalls int
			)
			handler := connect.NewBidiStreamHandler(
				"/connect.ping.v1.PingService/CumSum",
				func(ctx context.Context, stream *connect.BidiStream[pingv1.CumSumRequest, pingv1.CumSumResponse]) error {
					for receiveCalls < 10 {
						receiveCalls++
						msg, err := stream.Receive()
						if errors.Is(err, io.EOF) {
							sawCleanEnd = true // what the documentation of Receive calls "the client is done sending"
							return nil
						}
						if err != nil {
							receiveErrs = append(receiveErrs, err)
							continue // skip what could not be read, go on with the stream
						}
						received = append(received, msg.Number)
					}
					return errors.New("no end in sight")
				},
			)
			request := httptest.NewRequest(http.MethodPost, "http://example.com/connect.ping.v1.PingService/CumSum", bytes.NewReader(body))
			request.Header.Set("Content-Type", contentType)
			request.ProtoMajor, request.ProtoMinor, request.Proto = 2, 0, "HTTP/2.0"
			handler.ServeHTTP(httptest.NewRecorder(), request)

			if sawCleanEnd {
				t.Errorf("%s, request body = %s: C04 expects that the handler never sees a clean end of this request stream; "+
					"observed: messages %v, then Receive errors %v, then Receive returned an error wrapping io.EOF (clean end) on call %d",
					protocolName, bodyName, received, receiveErrs, receiveCalls)
			}
		}
	}
}
