package connect_test

import (
	"context"
	"errors"
	"io"
	"net/http"
	"net/http/httptest"
	"testing"
	"time"

	"github.com/bufbuild/connect-go"
	pingv1 "github.com/bufbuild/connect-go/internal/gen/connect/ping/v1"
	"github.com/bufbuild/connect-go/internal/gen/connect/ping/v1/pingv1connect"
)

// C15, finding 2: bidi stream over HTTP/2 used the usual way (one goroutine
// receiving, another sending). The context is cancelled while Receive is
// blocked. The next Send correctly fails with canceled - but in doing so
// duplexHTTPCall.Write calls SetError, which closes the request-body pipe;
// net/http aborts the stream with io.ErrClosedPipe, the blocked response-body
// read returns that raw error, and the envelope reader reports the blocked
// Receive as "invalid_argument: protocol error: incomplete envelope: io:
// read/write on closed pipe" instead of canceled / deadline_exceeded.

type auditC15aF2Server struct {
	pingv1connect.UnimplementedPingServiceHandler
}

func (auditC15aF2Server) CumSum(ctx context.Context, stream *connect.BidiStream[pingv1.CumSumRequest, pingv1.CumSumResponse]) error {
	if _, err := stream.Receive(); err != nil {
		return err
	}
	// Sends the response headers and one message; then stays silent.
	if err := stream.Send(&pingv1.CumSumResponse{Sum: 1}); err != nil {
		return err
	}
	select {
	case <-ctx.Done():
	case <-time.After(5 * time.Second):
	}
	return ctx.Err()
}

func TestAuditC15aFinding2(t *testing.T) {
	mux := http.NewServeMux()
	mux.Handle(pingv1connect.NewPingServiceHandler(auditC15aF2Server{}))
	server := httptest.NewUnstartedServer(mux)
	server.EnableHTTP2 = true
	server.StartTLS()
	defer server.Close()

	protocols := []struct {
		name string
		opts []connect.ClientOption
	}{
		{"connect", nil},
		{"grpc", []connect.ClientOption{connect.WithGRPC()}},
		{"grpcweb", []connect.ClientOption{connect.WithGRPCWeb()}},
	}
	for _, proto := range protocols {
		proto := proto
		t.Run(proto.name, func(t *testing.T) {
			client := pingv1connect.NewPingServiceClient(server.Client(), server.URL, proto.opts...)
			ctx, cancel := context.WithCancel(context.Background())
			defer cancel()
			stream := client.CumSum(ctx)
			if err := stream.Send(&pingv1.CumSumRequest{Number: 1}); err != nil {
				t.Fatalf("test setup: first Send: %v", err)
			}
			if _, err := stream.Receive(); err != nil {
				t.Fatalf("test setup: first Receive: %v", err)
			}
			received := make(chan error, 1)
			go func() {
				_, err := stream.Receive() // blocks: the handler is silent
				received <- err
			}()
			time.Sleep(200 * time.Millisecond) // let the receiver block in the body read
			cancel()
			time.Sleep(50 * time.Millisecond)

			// Sender goroutine's next Send, after the cancellation.
			sendErr := stream.Send(&pingv1.CumSumRequest{Number: 2})
			if sendErr == nil {
				t.Errorf("C15 violated: Send after cancellation succeeded")
			} else if got := connect.CodeOf(sendErr); got != connect.CodeCanceled && !errors.Is(sendErr, io.EOF) {
				t.Errorf("C15 violated: Send after cancellation: expected code canceled (or the stream-closed error wrapping io.EOF), observed code %v (error: %v)", got, sendErr)
			}

			select {
			case err := <-received:
				if err == nil {
					t.Fatalf("C15 violated: blocked Receive returned success after the context was cancelled")
				}
				if got := connect.CodeOf(err); got != connect.CodeCanceled {
					t.Errorf("C15 violated: context cancelled during a blocked Receive; property expects Receive to fail with code canceled, observed code %v (error: %v)", got, err)
				}
			case <-time.After(4 * time.Second):
				t.Fatalf("blocked Receive did not return within 4s of the cancellation and the failed Send")
			}
		})
	}
}
