package connect_test

import (
	"bytes"
	"context"
	"io"
	"net/http"
	"net/http/httptest"
	"sync/atomic"
	"testing"
	"time"

	"github.com/bufbuild/connect-go"
	pingv1 "github.com/bufbuild/connect-go/internal/gen/connect/ping/v1"
	"github.com/bufbuild/connect-go/internal/gen/connect/ping/v1/pingv1connect"
)

type auditC10sF2Server struct {
	pingv1connect.UnimplementedPingServiceHandler

	ran      atomic.Int32
	deadline atomic.Int64 // remaining ns seen by the handler, 0 if none
}

func (s *auditC10sF2Server) Ping(
	ctx context.Context,
	_ *connect.Request[pingv1.PingRequest],
) (*connect.Response[pingv1.PingResponse], error) {
	s.ran.Add(1)
	if d, ok := ctx.Deadline(); ok {
		s.deadline.Store(int64(time.Until(d)))
	}
	return connect.NewResponse(&pingv1.PingResponse{}), nil
}

// C10: "a malformed one - missing or unknown unit, empty or non-decimal number,
// or a magnitude beyond the grammar's digit limit - is rejected as
// invalid_argument without running user code", and "every grammatical timeout a
// peer sends is honoured exactly".
//
// Both SetTimeout implementations look at request.Header.Get(...), i.e. only at
// the FIRST field line. A peer that sends the timeout header twice has every
// line after the first ignored: a malformed second line is not rejected (user
// code runs), and a shorter grammatical second line is not honoured. The same
// content on one line ("5000,junk") is rejected, and swapping the two lines
// flips the outcome.
func TestAuditC10sFinding2(t *testing.T) {
	for _, tc := range []struct {
		name        string
		contentType string
		header      string
		body        []byte
		first       string
		second      string
		isMalformed bool          // second line is malformed -> must be rejected
		wantAtMost  time.Duration // otherwise: the handler's deadline must honour the second line too
	}{
		{"connect/malformed_second_line", "application/json", "Connect-Timeout-Ms", []byte("{}"), "5000", "junk", true, 0},
		{"connect/empty_second_line", "application/json", "Connect-Timeout-Ms", []byte("{}"), "5000", "", true, 0},
		{"connect/signed_second_line", "application/json", "Connect-Timeout-Ms", []byte("{}"), "5000", "-1", true, 0},
		{"grpc/malformed_second_line", "application/grpc+json", "Grpc-Timeout", []byte("\x00\x00\x00\x00\x02{}"), "5S", "5", true, 0},
		{"grpc/nine_digit_second_line", "application/grpc+json", "Grpc-Timeout", []byte("\x00\x00\x00\x00\x02{}"), "5S", "123456789n", true, 0},
		{"grpcweb/malformed_second_line", "application/grpc-web+json", "Grpc-Timeout", []byte("\x00\x00\x00\x00\x02{}"), "5S", "5x", true, 0},
		{"connect/shorter_second_line", "application/json", "Connect-Timeout-Ms", []byte("{}"), "3600000", "1000", false, time.Second},
		{"grpc/shorter_second_line", "application/grpc+json", "Grpc-Timeout", []byte("\x00\x00\x00\x00\x02{}"), "1H", "1S", false, time.Second},
	} {
		tc := tc
		t.Run(tc.name, func(t *testing.T) {
			srv := &auditC10sF2Server{}
			mux := http.NewServeMux()
			mux.Handle(pingv1connect.NewPingServiceHandler(srv))
			server := httptest.NewUnstartedServer(mux)
			server.EnableHTTP2 = true
			server.StartTLS()
			defer server.Close()

			request, err := http.NewRequest(
				http.MethodPost,
				server.URL+"/"+pingv1connect.PingServiceName+"/Ping",
				bytes.NewReader(tc.body),
			)
			if err != nil {
				t.Fatal(err)
			}
			request.Header.Set("Content-Type", tc.contentType)
			request.Header.Add(tc.header, tc.first)
			request.Header.Add(tc.header, tc.second)
			response, err := server.Client().Do(request)
			if err != nil {
				t.Fatal(err)
			}
			body, _ := io.ReadAll(response.Body)
			response.Body.Close()
			status := response.Header.Get("Grpc-Status")
			if status == "" {
				status = response.Trailer.Get("Grpc-Status")
			}
			t.Logf("HTTP %d, grpc-status %q, body %q", response.StatusCode, status, body)

			if tc.isMalformed {
				rejected := response.StatusCode == http.StatusBadRequest || status == "3" ||
					bytes.Contains(body, []byte("invalid_argument")) || bytes.Contains(body, []byte("rpc-status: 3")) ||
					bytes.Contains(body, []byte("Grpc-Status: 3"))
				if srv.ran.Load() != 0 || !rejected {
					t.Errorf("C10 violated: peer sent %s: %q and %s: %q; expected the malformed timeout to be rejected "+
						"as invalid_argument without running user code; observed HTTP %d, grpc-status %q, handler ran %d time(s) "+
						"with %v remaining (the second field line was ignored)",
						tc.header, tc.first, tc.header, tc.second, response.StatusCode, status,
						srv.ran.Load(), time.Duration(srv.deadline.Load()))
				}
				return
			}
			if got := time.Duration(srv.deadline.Load()); srv.ran.Load() != 0 && got > tc.wantAtMost {
				t.Errorf("C10 violated: peer sent %s: %q and %s: %q; expected every grammatical timeout sent to be honoured "+
					"(handler deadline at most %v away) or the request to be rejected; observed the handler running with %v remaining "+
					"(the second field line was ignored)",
					tc.header, tc.first, tc.header, tc.second, tc.wantAtMost, got)
			}
		})
	}
}
