package connect_test

import (
	"context"
	"errors"
	"net/http"
	"testing"

	connect "github.com/bufbuild/connect-go"
	pingv1 "github.com/bufbuild/connect-go/internal/gen/connect/ping/v1"
)

// A base URL that url.ParseRequestURI accepts (so NewClient reports no error)
// but url.Parse rejects (invalid escape in the fragment): constructing the
// *http.Request fails. The call must fail with a coded error, not panic.
func TestGovcFindingUnparsableURL(t *testing.T) {
	for _, url := range []string{"http://example.com/?#%", "http://example.com/ping?x#%zz"} {
		client := connect.NewClient[pingv1.PingRequest, pingv1.PingResponse](http.DefaultClient, url)
		func() {
			defer func() {
				if r := recover(); r != nil {
					t.Errorf("%q: CallUnary panicked: %v", url, r)
				}
			}()
			_, err := client.CallUnary(context.Background(), connect.NewRequest(&pingv1.PingRequest{}))
			var cerr *connect.Error
			if err == nil || !errors.As(err, &cerr) {
				t.Errorf("%q: want a coded error, got %v", url, err)
			} else {
				t.Logf("%q: %v (code %v)", url, err, cerr.Code())
			}
		}()
		func() {
			defer func() {
				if r := recover(); r != nil {
					t.Errorf("%q: CallBidiStream panicked: %v", url, r)
				}
			}()
			stream := client.CallBidiStream(context.Background())
			_ = stream.RequestHeader()
			err := stream.Send(&pingv1.PingRequest{})
			if err == nil {
				_, err = stream.Receive()
			}
			if err == nil {
				t.Errorf("%q: bidi stream: want an error", url)
			}
			_ = stream.CloseRequest()
			_ = stream.CloseResponse()
		}()
	}
}
