package connect_test

import (
	"bytes"
	"context"
	"fmt"
	"io"
	"net/http"
	"net/http/httptest"
	"runtime/debug"
	"testing"

	connect "github.com/bufbuild/connect-go"
	pingv1 "github.com/bufbuild/connect-go/internal/gen/connect/ping/v1"
)

// C07: for every handler configuration, serving any request terminates without
// panicking.
//
// The documentation of WithCompression says: "Calling WithCompression with an
// empty name or nil constructors is a no-op." In fact the option registers a
// compression pool whose constructors are nil; as soon as a client names that
// algorithm (Accept-Encoding for the response, Content-Encoding for the request)
// the pool calls the nil constructor and ServeHTTP panics.
func TestAuditC07aFinding2(t *testing.T) {
	t.Parallel()
	handler := connect.NewUnaryHandler(
		"/connect.ping.v1.PingService/Ping",
		func(_ context.Context, req *connect.Request[pingv1.PingRequest]) (*connect.Response[pingv1.PingResponse], error) {
			return connect.NewResponse(&pingv1.PingResponse{Number: req.Msg.Number}), nil
		},
		connect.WithCompression("gzip", nil, nil), // documented as a no-op
	)
	serve := func(t *testing.T, header map[string]string, body []byte) {
		t.Helper()
		request := httptest.NewRequest(http.MethodPost, "/connect.ping.v1.PingService/Ping", bytes.NewReader(body))
		request.Header.Set("Content-Type", "application/proto")
		for k, v := range header {
			request.Header.Set(k, v)
		}
		recorder := httptest.NewRecorder()
		var panicked any
		var stack []byte
		func() {
			defer func() {
				if panicked = recover(); panicked != nil {
					stack = debug.Stack()
				}
			}()
			handler.ServeHTTP(recorder, request)
		}()
		if panicked != nil {
			t.Fatalf("C07 violated: expected ServeHTTP to return normally with a Connect response "+
				"(200, or an error such as 404 unimplemented); observed panic: %v\n%s",
				panicked, auditC07aF2FirstLines(stack, 14))
		}
		response := recorder.Result()
		data, _ := io.ReadAll(response.Body)
		t.Logf("status=%d header=%v body=%q", response.StatusCode, response.Header, data)
	}
	t.Run("response_compression_requested", func(t *testing.T) {
		serve(t, map[string]string{"Accept-Encoding": "gzip"}, nil)
	})
	t.Run("request_compressed", func(t *testing.T) {
		serve(t, map[string]string{"Content-Encoding": "gzip"}, []byte("not empty"))
	})
}

func auditC07aF2FirstLines(data []byte, n int) string {
	lines := bytes.SplitN(data, []byte("\n"), n+1)
	if len(lines) > n {
		lines = lines[:n]
	}
	return fmt.Sprintf("%s", bytes.Join(lines, []byte("\n")))
}
