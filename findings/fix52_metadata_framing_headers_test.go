package connect_test

import (
	"bytes"
	"context"
	"encoding/json"
	"errors"
	"io"
	"net/http"
	"net/http/httptest"
	"testing"

	connect "github.com/bufbuild/connect-go"
	pingv1 "github.com/bufbuild/connect-go/internal/gen/connect/ping/v1"
	"google.golang.org/protobuf/types/known/anypb"
)

// A gateway handler calls an upstream Connect service and hands the upstream's
// error back unchanged (or with one more detail). The *Error it returns
// carries, as metadata, the upstream response's HTTP headers - Content-Type
// and Content-Length among them. The handler-side protocol code copies all of
// that into its own response headers.
func TestAuditC05tFinding2(t *testing.T) {
	upstreamMux := http.NewServeMux()
	upstreamMux.Handle("/up", connect.NewUnaryHandler(
		"/up",
		func(context.Context, *connect.Request[pingv1.PingRequest]) (*connect.Response[pingv1.PingResponse], error) {
			return nil, connect.NewError(connect.CodeNotFound, errors.New("no such thing"))
		},
	))
	upstream := httptest.NewServer(upstreamMux)
	defer upstream.Close()
	upstreamClient := connect.NewClient[pingv1.PingRequest, pingv1.PingResponse](upstream.Client(), upstream.URL+"/up")

	mux := http.NewServeMux()
	mux.Handle("/gw", connect.NewUnaryHandler(
		"/gw",
		func(ctx context.Context, _ *connect.Request[pingv1.PingRequest]) (*connect.Response[pingv1.PingResponse], error) {
			res, err := upstreamClient.CallUnary(ctx, connect.NewRequest(&pingv1.PingRequest{}))
			return res, err // pass the upstream's error on
		},
	))
	mux.Handle("/gwdetail", connect.NewUnaryHandler(
		"/gwdetail",
		func(ctx context.Context, _ *connect.Request[pingv1.PingRequest]) (*connect.Response[pingv1.PingResponse], error) {
			_, err := upstreamClient.CallUnary(ctx, connect.NewRequest(&pingv1.PingRequest{}))
			var connectErr *connect.Error
			if errors.As(err, &connectErr) {
				if detail, derr := anypb.New(&pingv1.PingRequest{Text: "seen by the gateway"}); derr == nil {
					connectErr.AddDetail(detail)
				}
			}
			return nil, err
		},
	))
	server := httptest.NewServer(mux)
	defer server.Close()

	t.Run("grpcweb_trailers_only", func(t *testing.T) {
		const contentType = "application/grpc-web+proto"
		res, err := http.Post(server.URL+"/gw", contentType, bytes.NewReader([]byte{0, 0, 0, 0, 0}))
		if err != nil {
			t.Fatal(err)
		}
		defer res.Body.Close()
		body, readErr := io.ReadAll(res.Body)
		contentTypes := res.Header.Values("Content-Type")
		if len(contentTypes) != 1 || contentTypes[0] != contentType {
			t.Errorf("property: the response Content-Type echoes the request's (%q); observed Content-Type field lines %q",
				contentType, contentTypes)
		}
		if readErr != nil || res.Header.Get("Grpc-Status") != "5" {
			t.Errorf("property: a body-less gRPC-Web response is HTTP 200 with grpc-status (5, not_found) in the headers and is decodable; "+
				"observed: HTTP %d, Grpc-Status %q, Content-Length %q, body %q, error reading the body: %v",
				res.StatusCode, res.Header.Values("Grpc-Status"), res.Header.Values("Content-Length"), body, readErr)
		}
	})

	t.Run("connect_unary", func(t *testing.T) {
		res, err := http.Post(server.URL+"/gwdetail", "application/proto", bytes.NewReader(nil))
		if err != nil {
			t.Fatal(err)
		}
		defer res.Body.Close()
		body, readErr := io.ReadAll(res.Body)
		var wire struct {
			Code    string            `json:"code"`
			Details []json.RawMessage `json:"details"`
		}
		jsonErr := json.Unmarshal(body, &wire)
		if readErr != nil || jsonErr != nil || wire.Code != "not_found" || len(wire.Details) != 1 {
			t.Errorf("property: a unary Connect error is JSON (code not_found, one detail) under the code's HTTP status; "+
				"observed: HTTP %d, Content-Length %q, body %q, read error %v, JSON error %v",
				res.StatusCode, res.Header.Values("Content-Length"), body, readErr, jsonErr)
		}
	})
}
