package connect_test

import (
	"context"
	"encoding/json"
	"fmt"
	"net/http"
	"net/http/httptest"
	"reflect"
	"testing"

	connect "github.com/bufbuild/connect-go"
)

// A user-supplied codec (connect.WithCodec) for plain Go structs, built on
// encoding/json - the obvious way to write one. Like json.Unmarshal itself (and
// like proto.Merge-style decoders) it fills in the fields that are present in
// the encoding and leaves the others alone; the Codec interface doesn't ask for
// more ("Unmarshal unmarshals the given message").
type auditC01xJSONCodec struct{}

func (auditC01xJSONCodec) Name() string                       { return "json" }
func (auditC01xJSONCodec) Marshal(m any) ([]byte, error)      { return json.Marshal(m) }
func (auditC01xJSONCodec) Unmarshal(data []byte, m any) error { return json.Unmarshal(data, m) }

type auditC01xMsg struct {
	Number int64  `json:"number,omitempty"`
	Text   string `json:"text,omitempty"`
}

// C01: "the sequence of messages the receiving side's API yields equals the
// sequence the sending side passed in - same count, order and content,
// including zero-valued (empty-encoding) messages at any position and
// regardless of what earlier messages on the stream contained".
//
// ServerStreamForClient.Receive (client side) and ClientStream.Receive
// (handler side) decode every message of the stream into one and the same
// message value without clearing it in between, so what Msg() yields for a
// message depends on the messages before it. (BidiStreamForClient.Receive and
// BidiStream.Receive decode each message into a fresh value.)
func TestAuditC01xFinding2(t *testing.T) {
	sent := []auditC01xMsg{
		{Number: 7, Text: "first"},
		{}, // zero-valued message in the middle
		{Text: "third"},
		{Number: 4},
	}
	mux := http.NewServeMux()
	mux.Handle("/audit.Service/ServerStream", connect.NewServerStreamHandler(
		"/audit.Service/ServerStream",
		func(_ context.Context, _ *connect.Request[auditC01xMsg], stream *connect.ServerStream[auditC01xMsg]) error {
			for i := range sent {
				msg := sent[i]
				if err := stream.Send(&msg); err != nil {
					return err
				}
			}
			return nil
		},
		connect.WithCodec(auditC01xJSONCodec{}),
	))
	var handlerGot []auditC01xMsg
	mux.Handle("/audit.Service/ClientStream", connect.NewClientStreamHandler(
		"/audit.Service/ClientStream",
		func(_ context.Context, stream *connect.ClientStream[auditC01xMsg]) (*connect.Response[auditC01xMsg], error) {
			handlerGot = nil
			for stream.Receive() {
				handlerGot = append(handlerGot, *stream.Msg())
			}
			if err := stream.Err(); err != nil {
				return nil, err
			}
			return connect.NewResponse(&auditC01xMsg{}), nil
		},
		connect.WithCodec(auditC01xJSONCodec{}),
	))
	server := httptest.NewUnstartedServer(mux)
	server.EnableHTTP2 = true
	server.StartTLS()
	defer server.Close()

	protocols := map[string][]connect.ClientOption{
		"connect": nil,
		"grpc":    {connect.WithGRPC()},
		"grpcweb": {connect.WithGRPCWeb()},
	}
	for name, protocolOptions := range protocols {
		options := append([]connect.ClientOption{connect.WithCodec(auditC01xJSONCodec{})}, protocolOptions...)
		t.Run(name+"/server_to_client", func(t *testing.T) {
			client := connect.NewClient[auditC01xMsg, auditC01xMsg](
				server.Client(), server.URL+"/audit.Service/ServerStream", options...)
			stream, err := client.CallServerStream(context.Background(), connect.NewRequest(&auditC01xMsg{}))
			if err != nil {
				t.Fatal(err)
			}
			defer stream.Close()
			var got []auditC01xMsg
			for stream.Receive() {
				got = append(got, *stream.Msg())
			}
			if err := stream.Err(); err != nil {
				t.Fatal(err)
			}
			if !reflect.DeepEqual(got, sent) {
				t.Fatalf("C01 (same content, zero-valued messages at any position, regardless of earlier messages):\n"+
					"handler sent                         %s\n"+
					"ServerStreamForClient.Receive/Msg yielded %s",
					fmt.Sprintf("%+v", sent), fmt.Sprintf("%+v", got))
			}
		})
		t.Run(name+"/client_to_server", func(t *testing.T) {
			client := connect.NewClient[auditC01xMsg, auditC01xMsg](
				server.Client(), server.URL+"/audit.Service/ClientStream", options...)
			stream := client.CallClientStream(context.Background())
			for i := range sent {
				msg := sent[i]
				if err := stream.Send(&msg); err != nil {
					t.Fatal(err)
				}
			}
			if _, err := stream.CloseAndReceive(); err != nil {
				t.Fatal(err)
			}
			if !reflect.DeepEqual(handlerGot, sent) {
				t.Fatalf("C01 (same content, zero-valued messages at any position, regardless of earlier messages):\n"+
					"client sent                      %s\n"+
					"ClientStream.Receive/Msg yielded %s",
					fmt.Sprintf("%+v", sent), fmt.Sprintf("%+v", handlerGot))
			}
		})
	}
}
