package connect_test

import (
	"bytes"
	"context"
	"io"
	"net/http"
	"net/http/httptest"
	"strings"
	"testing"

	connect "github.com/bufbuild/connect-go"
	pingv1 "github.com/bufbuild/connect-go/internal/gen/connect/ping/v1"
	"google.golang.org/protobuf/proto"
)

// C08: the handler compresses the response with an algorithm "the client ...
// advertised, preferring the client's most-preferred mutually supported one".
//
// An HTTP field that occurs several times is equivalent to one field with the
// values joined by commas (RFC 7230 3.2.2), and net/http keeps the lines
// separate. The handlers only look at the first line of the accept-encoding
// header (http.Header.Get), so a client that advertises "br" on one line and
// "gzip" on the next gets an uncompressed response from a gzip-capable handler
// although gzip is mutually supported and advertised.
func TestAuditC08aFinding3(t *testing.T) {
	text := strings.Repeat("compressible ", 1000)
	handler := connect.NewUnaryHandler(
		"/connect.ping.v1.PingService/Ping",
		func(_ context.Context, req *connect.Request[pingv1.PingRequest]) (*connect.Response[pingv1.PingResponse], error) {
			return connect.NewResponse(&pingv1.PingResponse{Text: req.Msg.Text}), nil
		},
	)
	server := httptest.NewServer(handler)
	defer server.Close()
	body, err := proto.Marshal(&pingv1.PingRequest{Text: text})
	if err != nil {
		t.Fatal(err)
	}
	envelope := append([]byte{0, byte(len(body) >> 24), byte(len(body) >> 16), byte(len(body) >> 8), byte(len(body))}, body...)

	cases := []struct {
		name, contentType, acceptHeader, encodingHeader string
		body                                            []byte
	}{
		{"connect-unary", "application/proto", "Accept-Encoding", "Content-Encoding", body},
		{"grpc-web", "application/grpc-web+proto", "Grpc-Accept-Encoding", "Grpc-Encoding", envelope},
	}
	for _, tc := range cases {
		tc := tc
		t.Run(tc.name, func(t *testing.T) {
			do := func(acceptLines ...string) string {
				req, _ := http.NewRequest(http.MethodPost, server.URL+"/connect.ping.v1.PingService/Ping", bytes.NewReader(tc.body))
				req.Header.Set("Content-Type", tc.contentType)
				req.Header[tc.acceptHeader] = acceptLines
				res, err := (&http.Transport{DisableCompression: true}).RoundTrip(req)
				if err != nil {
					t.Fatal(err)
				}
				defer res.Body.Close()
				_, _ = io.Copy(io.Discard, res.Body)
				if res.StatusCode != http.StatusOK {
					t.Fatalf("status %d", res.StatusCode)
				}
				return res.Header.Get(tc.encodingHeader)
			}
			oneLine := do("br, gzip")
			twoLines := do("br", "gzip")
			t.Logf("%s: %q -> %s=%q; two lines %q,%q -> %s=%q", tc.acceptHeader, "br, gzip", tc.encodingHeader, oneLine, "br", "gzip", tc.encodingHeader, twoLines)
			if oneLine != "gzip" {
				t.Fatalf("sanity: expected gzip for the single-line form, got %q", oneLine)
			}
			if twoLines != "gzip" {
				t.Errorf("client advertised br and gzip (two %s lines), handler supports gzip and the %d-byte message is above "+
					"compress-min-bytes=0: C08 expects the response compressed with gzip (the client's most-preferred "+
					"mutually supported algorithm); observed %s=%q (uncompressed)",
					tc.acceptHeader, len(body), tc.encodingHeader, twoLines)
			}
		})
	}
}
