package connect_test

import (
	"context"
	"encoding/binary"
	"errors"
	"io"
	"net/http"
	"testing"

	connect "github.com/bufbuild/connect-go"
	pingv1 "github.com/bufbuild/connect-go/internal/gen/connect/ping/v1"
	"github.com/bufbuild/connect-go/internal/gen/connect/ping/v1/pingv1connect"
	"google.golang.org/protobuf/proto"
)

// auditC04v1Client is an HTTPClient that answers every request with a canned
// 200 response: the given headers, the given body, then a clean io.EOF, and
// NO HTTP trailers.
type auditC04v1Client struct {
	header http.Header
	body   []byte
}

type auditC04v1Body struct {
	data []byte
	pos  int
}

func (b *auditC04v1Body) Read(p []byte) (int, error) {
	if b.pos >= len(b.data) {
		return 0, io.EOF
	}
	n := copy(p, b.data[b.pos:])
	b.pos += n
	return n, nil
}

func (b *auditC04v1Body) Close() error { return nil }

func (c *auditC04v1Client) Do(req *http.Request) (*http.Response, error) {
	_, _ = io.Copy(io.Discard, req.Body)
	_ = req.Body.Close()
	return &http.Response{
		StatusCode: http.StatusOK,
		Status:     "200 OK",
		Proto:      "HTTP/2.0",
		ProtoMajor: 2,
		Header:     c.header.Clone(),
		Body:       &auditC04v1Body{data: c.body},
		Request:    req,
		// Trailer stays nil: the peer never sent trailers.
	}, nil
}

func auditC04v1Envelope(t *testing.T, msg proto.Message) []byte {
	t.Helper()
	payload, err := proto.Marshal(msg)
	if err != nil {
		t.Fatal(err)
	}
	out := make([]byte, 5+len(payload))
	binary.BigEndian.PutUint32(out[1:5], uint32(len(payload)))
	copy(out[5:], payload)
	return out
}

// The peer was going to stream CountUp 1,2,3 and then the status. The
// response is cut right after the first message (a message boundary, clean
// EOF): no gRPC status trailers and no gRPC-Web trailers frame ever arrive.
// The only thing that differs from the control is a "Grpc-Status: 0" field in
// the response HEADERS, i.e. before the body, where it cannot mark the end of
// anything.
func TestAuditC04vFinding1(t *testing.T) {
	for _, protocol := range []struct {
		name        string
		option      connect.ClientOption
		contentType string
	}{
		{"grpc", connect.WithGRPC(), "application/grpc+proto"},
		{"grpcweb", connect.WithGRPCWeb(), "application/grpc-web+proto"},
	} {
		for _, statusInHeader := range []bool{false, true} {
			header := http.Header{"Content-Type": {protocol.contentType}}
			if statusInHeader {
				header.Set("Grpc-Status", "0")
			}
			name := protocol.name + "/control"
			if statusInHeader {
				name = protocol.name + "/grpc-status-in-headers"
			}

			// server streaming
			body := auditC04v1Envelope(t, &pingv1.CountUpResponse{Number: 1}) // 2 and 3 and the terminator are cut off
			client := pingv1connect.NewPingServiceClient(&auditC04v1Client{header: header, body: body}, "http://example.test", protocol.option)
			stream, err := client.CountUp(context.Background(), connect.NewRequest(&pingv1.CountUpRequest{Number: 3}))
			if err != nil {
				t.Fatalf("%s: CountUp: %v", name, err)
			}
			var got []int64
			for stream.Receive() {
				got = append(got, stream.Msg().Number)
			}
			if streamErr := stream.Err(); streamErr == nil {
				t.Errorf("%s server-stream: C04 expects a coded error, because the body ended after message 1 and neither gRPC status trailers nor a gRPC-Web trailers frame arrived; observed successful completion (Err()==nil) with messages %v", name, got)
			} else {
				var connectErr *connect.Error
				if !errors.As(streamErr, &connectErr) {
					t.Errorf("%s server-stream: error is not coded: %v", name, streamErr)
				}
				t.Logf("%s server-stream: fails as it should: %v", name, streamErr)
			}

			// unary: the response message arrives, the terminator never does
			body = auditC04v1Envelope(t, &pingv1.PingResponse{Number: 7})
			client = pingv1connect.NewPingServiceClient(&auditC04v1Client{header: header, body: body}, "http://example.test", protocol.option)
			res, err := client.Ping(context.Background(), connect.NewRequest(&pingv1.PingRequest{Number: 7}))
			if err == nil {
				t.Errorf("%s unary: C04 expects a coded error, because the body ended after the response message and no status trailers / trailers frame arrived; observed success with message %v", name, res.Msg)
			} else {
				t.Logf("%s unary: fails as it should: %v", name, err)
			}
		}
	}
}
