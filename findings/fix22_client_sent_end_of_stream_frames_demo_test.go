package connect_test

import (
	"bytes"
	"context"
	"encoding/binary"
	"io"
	"net/http"
	"net/http/httptest"
	"strings"
	"testing"

	connect "github.com/bufbuild/connect-go"
	pingv1 "github.com/bufbuild/connect-go/internal/gen/connect/ping/v1"
	"google.golang.org/protobuf/proto"
)

func findingF22Envelope(flags byte, payload []byte) []byte {
	out := make([]byte, 5, 5+len(payload))
	out[0] = flags
	binary.BigEndian.PutUint32(out[1:], uint32(len(payload)))
	return append(out, payload...)
}

// C07: malformed framing must reach the peer as an error code, never as success.
//
// Only servers may send the protocol-specific "end of stream" frames (Connect:
// envelope flag 0b10 with a JSON EndStreamResponse; gRPC-Web: envelope flag 0x80
// with a trailers block). When a *client* sends one in the request body, the
// handler-side unmarshalers parse it as if they were a client and return
// errSpecialEnvelope, which wraps io.EOF. ClientStream.Err / BidiStream users
// treat anything wrapping io.EOF as the clean end of the request stream, so the
// RPC succeeds - and everything after the bogus frame (here: plain garbage) is
// never looked at.
func TestFindingClientSentEndOfStreamFrames(t *testing.T) {
	t.Parallel()
	handler := connect.NewClientStreamHandler(
		"/connect.ping.v1.PingService/Sum",
		func(_ context.Context, stream *connect.ClientStream[pingv1.SumRequest]) (*connect.Response[pingv1.SumResponse], error) {
			var sum int64
			for stream.Receive() {
				sum += stream.Msg().Number
			}
			if err := stream.Err(); err != nil {
				return nil, err
			}
			return connect.NewResponse(&pingv1.SumResponse{Sum: sum}), nil
		},
	)
	one, err := proto.Marshal(&pingv1.SumRequest{Number: 1})
	if err != nil {
		t.Fatal(err)
	}
	garbage := []byte{0xDE, 0xAD, 0xBE} // not even a complete 5-byte envelope prefix

	serve := func(contentType string, body []byte) (*http.Response, []byte) {
		request := httptest.NewRequest(http.MethodPost, "/connect.ping.v1.PingService/Sum", bytes.NewReader(body))
		request.Header.Set("Content-Type", contentType)
		recorder := httptest.NewRecorder()
		handler.ServeHTTP(recorder, request)
		response := recorder.Result()
		data, _ := io.ReadAll(response.Body)
		return response, data
	}

	t.Run("connect_end_stream_from_client", func(t *testing.T) {
		var body []byte
		body = append(body, findingF22Envelope(0, one)...)
		body = append(body, findingF22Envelope(0b10, []byte(`{"error":{"code":"internal","message":"sent by the client"}}`))...)
		body = append(body, garbage...)
		response, data := serve("application/connect+proto", body)
		t.Logf("status=%d body=%q", response.StatusCode, data)
		// The last envelope of the response is the EndStream message.
		idx := bytes.LastIndex(data, []byte("\x02\x00\x00\x00"))
		if idx < 0 {
			t.Fatalf("no EndStream envelope in response %q", data)
		}
		end := string(data[idx+5:])
		if !strings.Contains(end, `"error"`) {
			t.Fatalf("C07 violated: the request body contains a server-only EndStream envelope followed by garbage "+
				"(malformed framing); expected an EndStream message with an error code, observed a successful RPC: "+
				"EndStream payload %q, full body %q", end, data)
		}
	})

	t.Run("grpc_web_trailers_from_client", func(t *testing.T) {
		var body []byte
		body = append(body, findingF22Envelope(0, one)...)
		body = append(body, findingF22Envelope(0x80, []byte("grpc-status: 13\r\n"))...)
		body = append(body, garbage...)
		response, data := serve("application/grpc-web+proto", body)
		t.Logf("status=%d header=%v body=%q", response.StatusCode, response.Header, data)
		status := response.Header.Get("Grpc-Status") // trailers-only responses use headers
		if status == "" {
			lower := strings.ToLower(string(data))
			if i := strings.LastIndex(lower, "grpc-status: "); i >= 0 {
				status = strings.TrimSpace(strings.SplitN(lower[i+len("grpc-status: "):], "\r\n", 2)[0])
			}
		}
		if status == "0" || status == "" {
			t.Fatalf("C07 violated: the request body contains a server-only gRPC-Web trailers frame (flag 0x80) followed "+
				"by garbage (malformed framing); expected a non-zero grpc-status, observed grpc-status %q, i.e. success: body %q",
				status, data)
		}
	})
	t.Run("grpc_web_unterminated_trailers_from_client", func(t *testing.T) {
		// A trailers block whose last line lacks its CRLF makes the MIME parser
		// report io.EOF; wrapped with %w that too reads as a clean end.
		var body []byte
		body = append(body, findingF22Envelope(0, one)...)
		body = append(body, findingF22Envelope(0x80, []byte("a: b"))...)
		body = append(body, garbage...)
		response, data := serve("application/grpc-web+proto", body)
		status := response.Header.Get("Grpc-Status")
		if status == "" {
			lower := strings.ToLower(string(data))
			if i := strings.LastIndex(lower, "grpc-status: "); i >= 0 {
				status = strings.TrimSpace(strings.SplitN(lower[i+len("grpc-status: "):], "\r\n", 2)[0])
			}
		}
		if status == "0" || status == "" {
			t.Fatalf("C07 violated: client-sent gRPC-Web trailers frame with an unterminated line followed by garbage; "+
				"expected a non-zero grpc-status, observed %q: body %q", status, data)
		}
	})
}