package connect_test

import (
	"bytes"
	"compress/gzip"
	"context"
	"encoding/binary"
	"fmt"
	"io"
	"net"
	"net/http"
	"net/http/httptest"
	"strings"
	"testing"

	connect "github.com/bufbuild/connect-go"
	pingv1 "github.com/bufbuild/connect-go/internal/gen/connect/ping/v1"
	"google.golang.org/protobuf/proto"
)

// Property C07 quantifies over the header *multimap* and says that unknown
// compression reaches the peer as the documented error code (unimplemented),
// never as success.
//
// A header field sent as several field lines means the same as one line with
// the values joined by commas (RFC 9110, section 5.3). The handler rejects
// "Grpc-Encoding: gzip,br" (one line) as unknown compression, but when the same
// field arrives as two lines ("Grpc-Encoding: gzip" + "Grpc-Encoding: br") it
// looks at the first line only, runs the user code and reports success. The
// same holds for Content-Encoding (Connect unary) and
// Connect-Content-Encoding (Connect streaming).
func TestAuditC07tFinding2(t *testing.T) {
	payload, err := proto.Marshal(&pingv1.PingRequest{Number: 42})
	if err != nil {
		t.Fatal(err)
	}
	var zipped bytes.Buffer
	zipper := gzip.NewWriter(&zipped)
	_, _ = zipper.Write(payload)
	_ = zipper.Close()
	envelope := func(flags byte, data []byte) []byte {
		out := make([]byte, 5, 5+len(data))
		out[0] = flags
		binary.BigEndian.PutUint32(out[1:5], uint32(len(data)))
		return append(out, data...)
	}
	sumPayload, _ := proto.Marshal(&pingv1.SumRequest{Number: 42})

	type outcome struct {
		calls   int
		success bool
		detail  string
	}
	cases := []struct {
		name        string
		contentType string
		header      string
		streaming   bool
		body        func(compressed bool) []byte
	}{
		{"grpc", "application/grpc", "Grpc-Encoding", false, func(c bool) []byte {
			if c {
				return envelope(1, zipped.Bytes())
			}
			return envelope(0, payload)
		}},
		{"grpc-web", "application/grpc-web", "Grpc-Encoding", false, func(c bool) []byte {
			if c {
				return envelope(1, zipped.Bytes())
			}
			return envelope(0, payload)
		}},
		{"connect-unary", "application/proto", "Content-Encoding", false, func(c bool) []byte {
			if c {
				return zipped.Bytes()
			}
			return payload
		}},
		{"connect-streaming", "application/connect+proto", "Connect-Content-Encoding", true, func(bool) []byte {
			return envelope(0, sumPayload)
		}},
	}
	for _, tc := range cases {
		tc := tc
		serve := func(values []string, body []byte) outcome {
			calls := 0
			var handler http.Handler
			if tc.streaming {
				handler = connect.NewClientStreamHandler(
					"/connect.ping.v1.PingService/Sum",
					func(_ context.Context, stream *connect.ClientStream[pingv1.SumRequest]) (*connect.Response[pingv1.SumResponse], error) {
						calls++
						var sum int64
						for stream.Receive() {
							sum += stream.Msg().Number
						}
						if stream.Err() != nil {
							return nil, stream.Err()
						}
						return connect.NewResponse(&pingv1.SumResponse{Sum: sum}), nil
					},
				)
			} else {
				handler = connect.NewUnaryHandler(
					"/connect.ping.v1.PingService/Ping",
					func(_ context.Context, req *connect.Request[pingv1.PingRequest]) (*connect.Response[pingv1.PingResponse], error) {
						calls++
						return connect.NewResponse(&pingv1.PingResponse{Number: req.Msg.Number}), nil
					},
				)
			}
			request := httptest.NewRequest(http.MethodPost, "/", bytes.NewReader(body))
			request.Header.Set("Content-Type", tc.contentType)
			for _, value := range values {
				request.Header.Add(tc.header, value)
			}
			recorder := httptest.NewRecorder()
			handler.ServeHTTP(recorder, request)
			response := recorder.Result()
			responseBody, _ := io.ReadAll(response.Body)
			var success bool
			var detail string
			switch tc.name {
			case "grpc":
				success = response.Trailer.Get("Grpc-Status") == "0"
				detail = "grpc-status " + response.Trailer.Get("Grpc-Status") + " " + response.Trailer.Get("Grpc-Message")
			case "grpc-web":
				// Trailers are the last envelope of the body (flag 0x80), possibly
				// compressed (flag 0x01); a trailers-only response has them as headers.
				trailers := "grpc-status: " + response.Header.Get("Grpc-Status") + " " + response.Header.Get("Grpc-Message")
				for rest := responseBody; len(rest) >= 5; {
					size := int(binary.BigEndian.Uint32(rest[1:5]))
					if rest[0]&0x80 != 0 {
						data := rest[5 : 5+size]
						if rest[0]&1 != 0 {
							if reader, err := gzip.NewReader(bytes.NewReader(data)); err == nil {
								data, _ = io.ReadAll(reader)
							}
						}
						trailers = string(data)
					}
					rest = rest[5+size:]
				}
				success = bytes.Contains([]byte(trailers), []byte("grpc-status: 0"))
				detail = trailers
			case "connect-unary":
				success = response.StatusCode == http.StatusOK
				detail = response.Status + " " + string(responseBody)
			case "connect-streaming":
				// The end-of-stream message is the last envelope (flag 0x02),
				// possibly compressed (flag 0x01).
				endStream := ""
				for rest := responseBody; len(rest) >= 5; {
					size := int(binary.BigEndian.Uint32(rest[1:5]))
					if rest[0]&0x02 != 0 {
						data := rest[5 : 5+size]
						if rest[0]&1 != 0 {
							if reader, err := gzip.NewReader(bytes.NewReader(data)); err == nil {
								data, _ = io.ReadAll(reader)
							}
						}
						endStream = string(data)
					}
					rest = rest[5+size:]
				}
				success = endStream != "" && !bytes.Contains([]byte(endStream), []byte(`"error"`))
				detail = "end-of-stream message " + endStream
			}
			return outcome{calls: calls, success: success, detail: detail}
		}
		t.Run(tc.name, func(t *testing.T) {
			// Baseline: the same field on one line is rejected as unknown compression.
			oneLine := serve([]string{"gzip,br"}, tc.body(true))
			if oneLine.success || oneLine.calls != 0 {
				t.Fatalf("baseline: %s: gzip,br on one line should be rejected, got %+v", tc.header, oneLine)
			}
			for _, lines := range [][]string{{"gzip", "br"}, {"identity", "br"}} {
				got := serve(lines, tc.body(lines[0] == "gzip"))
				if got.success || got.calls != 0 {
					t.Errorf("C07 violated (%s): request with field lines %s: %q (equivalent to %q, an unknown compression): "+
						"expected an unimplemented error and no call of the user code, as for the one-line form (%q); "+
						"observed success=%v, user code calls=%d (%q)",
						tc.name, tc.header, lines, lines[0]+", "+lines[1], oneLine.detail, got.success, got.calls, got.detail)
				}
			}
		})
	}
	// The same thing end to end: a real net/http server keeps the two field
	// lines apart, just like Header.Add above.
	t.Run("real_server_http11", func(t *testing.T) {
		calls := 0
		server := httptest.NewServer(connect.NewUnaryHandler(
			"/connect.ping.v1.PingService/Ping",
			func(_ context.Context, req *connect.Request[pingv1.PingRequest]) (*connect.Response[pingv1.PingResponse], error) {
				calls++
				return connect.NewResponse(&pingv1.PingResponse{Number: req.Msg.Number}), nil
			},
		))
		defer server.Close()
		conn, err := net.Dial("tcp", strings.TrimPrefix(server.URL, "http://"))
		if err != nil {
			t.Fatal(err)
		}
		defer conn.Close()
		fmt.Fprintf(conn, "POST / HTTP/1.1\r\nHost: x\r\nConnection: close\r\n"+
			"Content-Type: application/proto\r\nContent-Encoding: gzip\r\nContent-Encoding: br\r\n"+
			"Content-Length: %d\r\n\r\n", zipped.Len())
		_, _ = conn.Write(zipped.Bytes())
		raw, _ := io.ReadAll(conn)
		if calls != 0 || strings.HasPrefix(string(raw), "HTTP/1.1 200") {
			t.Errorf("C07 violated: Connect unary request with Content-Encoding: gzip + Content-Encoding: br (unknown compression \"gzip, br\"): "+
				"expected 404 with code unimplemented and no call of the user code; observed user code calls=%d, response %q", calls, raw)
		}
	})
}
