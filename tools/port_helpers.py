import subprocess, sys, os, shutil, json
base='/tmp/ap/base'
def mk(edits, reverse_from=None):
    w='/tmp/ap/port'
    shutil.rmtree(w, ignore_errors=True); os.makedirs(w+'/a'); os.makedirs(w+'/b')
    files=set(f for f,_,_ in edits)
    for f in files:
        shutil.copy(base+'/'+f, w+'/a/'+f); shutil.copy(base+'/'+f, w+'/b/'+f)
    for f,old,new in edits:
        s=open(w+'/b/'+f).read()
        assert s.count(old)==1, (f,old[:60],s.count(old))
        open(w+'/b/'+f,'w').write(s.replace(old,new))
    # build check
    t='/tmp/ap/build'; shutil.rmtree(t,ignore_errors=True); shutil.copytree(base,t)
    for f in files: shutil.copy(w+'/b/'+f,t+'/'+f)
    r=subprocess.run(['go','build','./...'],cwd=t,capture_output=True,text=True,env=dict(os.environ,GOFLAGS='-mod=mod',GOPROXY='off',GOSUMDB='off',GOTOOLCHAIN='local'))
    assert r.returncode==0, r.stderr[:400]
    return subprocess.run(['diff','-ruN','a','b'],cwd=w,capture_output=True,text=True).stdout
def seed(name, edits, note=None):
    out=mk(edits)
    d=f'/verif/seeded/{name}'
    if not os.path.exists(d+'/patch.orig.diff'): shutil.copy(d+'/patch.diff', d+'/patch.orig.diff')
    open(d+'/patch.diff','w').write(out)
    m=json.load(open(d+'/meta.json')); m['ported']=note or 'patch.diff re-expresses the same change on the tree after the fix: commits that rewrote the lines it touches (original: patch.orig.diff, against base_commit)'; json.dump(m,open(d+'/meta.json','w'),indent=1)
    print('ported',name)
def fwd(path, edits, jsonpatch=None):
    open(path,'w').write(mk(edits)); print('ported',path)
    if jsonpatch:
        p=path[:-6]+'.json'; j=json.load(open(p)); j.update(jsonpatch); json.dump(j,open(p,'w'),indent=1)

# canary 31: accept-encoding read with Get again (content-encoding keeps its join)
fwd('/verif/selftest/mutants/revert-fix-31.patch',[
 ('protocol_connect.go','acceptEncoding = strings.Join(request.Header.Values(connectUnaryHeaderAcceptCompression), ",")','acceptEncoding = request.Header.Get(connectUnaryHeaderAcceptCompression)'),
 ('protocol_connect.go','acceptEncoding = strings.Join(request.Header.Values(connectStreamingHeaderAcceptCompression), ",")','acceptEncoding = request.Header.Get(connectStreamingHeaderAcceptCompression)'),
 ('protocol_grpc.go','		strings.Join(request.Header.Values(grpcHeaderAcceptCompression), ","),','		request.Header.Get(grpcHeaderAcceptCompression),'),
],{'reverse':False})
# canary 43: the gRPC client ignores discard's verdict
fwd('/verif/selftest/mutants/revert-fix-43.patch',[
 ('protocol_grpc.go','''			drained, err := discard(call)
			if !drained {
				return make(http.Header), err
			}
			return call.ResponseTrailer(), nil''','''			_, err := discard(call)
			if err != nil {
				return make(http.Header), err
			}
			return call.ResponseTrailer(), nil'''),
],{'reverse':False})
seed('C02d-3',[('protocol_connect.go','''	if err != nil {
		if connectErr, ok := asError(err); ok {
			mergeMetadataHeaders(header, connectErr.meta)
		}
	}
	for k, v := range hc.responseTrailer {''','''	if connectErr, ok := err.(*Error); ok && connectErr != nil {
		mergeMetadataHeaders(header, connectErr.meta)
	}
	for k, v := range hc.responseTrailer {''')])
seed('C11c-3',[('protocol_connect.go','''	if err != nil {
		if connectErr, ok := asError(err); ok {
			mergeMetadataHeaders(header, connectErr.meta)
		}
	}
	for k, v := range hc.responseTrailer {''','''	if connectErr, ok := err.(*Error); ok { // nolint:errorlint
		mergeMetadataHeaders(header, connectErr.meta)
	}
	for k, v := range hc.responseTrailer {''')])
seed('C03-3',[('protocol_grpc.go','''			drained, err := discard(call)
			if !drained {
				return make(http.Header), err
			}
			return call.ResponseTrailer(), nil''','''			// Receive only asks for trailers once the response body is exhausted,
			// so net/http has already populated them.
			return call.ResponseTrailer(), nil''')])
seed('C03b-1',[('protocol_grpc.go','''			drained, err := discard(call)
			if !drained {
				return make(http.Header), err
			}
			return call.ResponseTrailer(), nil''','''			trailer := call.ResponseTrailer()
			drained, err := discard(call)
			if !drained {
				return make(http.Header), err
			}
			return trailer, nil''')])
g_old='''	if connectErr, ok := asError(err); ok {
		mergeMetadataHeaders(trailer, connectErr.meta)
	}
	trailer.Set(grpcHeaderStatus, code)
	trailer.Set(grpcHeaderMessage, grpcPercentEncode(bufferPool, status.Message))
	trailer.Set(grpcHeaderDetails, EncodeBinaryHeader(bin))
'''
g_new='''	trailer.Set(grpcHeaderStatus, code)
	trailer.Set(grpcHeaderMessage, grpcPercentEncode(bufferPool, status.Message))
	trailer.Set(grpcHeaderDetails, EncodeBinaryHeader(bin))
	if connectErr, ok := asError(err); ok {
		mergeMetadataHeaders(trailer, connectErr.meta)
	}
'''
for n in ['C05-3','C05b-2','C05d-1']:
    seed(n,[('protocol_grpc.go',g_old,g_new)])
seed('C05f-3',[('protocol_connect.go','''	hc.responseWriter.Header().Del(connectUnaryHeaderCompression)
	var wire *connectWireError''','''	var wire *connectWireError'''),
 ('protocol_connect.go','''			mergeMetadataHeaders(header, connectErr.meta)
		}
	}
	for k, v := range hc.responseTrailer {''','''			mergeMetadataHeaders(header, connectErr.meta)
			// The metadata may come from another call's response and name an
			// encoding; the error's JSON body isn't compressed.
			header.Del(connectUnaryHeaderCompression)
		}
	}
	for k, v := range hc.responseTrailer {''')])
seed('C08b-2',[('protocol_grpc.go','''		strings.Join(request.Header.Values(grpcHeaderCompression), ","),
		strings.Join(request.Header.Values(grpcHeaderAcceptCompression), ","),''','''		strings.Join(request.Header.Values(grpcHeaderAcceptCompression), ","),
		strings.Join(request.Header.Values(grpcHeaderCompression), ","),''')])
seed('C12-2',[('handler.go','''	contentType := strings.Join(request.Header.Values("Content-Type"), ", ")
''','''	contentType := strings.Join(request.Header.Values("Content-Type"), ", ")
	if idx := strings.IndexByte(contentType, ';'); idx >= 0 {
		// Ignore media type parameters, like "; charset=utf-8".
		contentType = strings.TrimSpace(contentType[:idx])
	}
''')])
fwd('/verif/selftest/harmless/agent-H2-2.patch',[('protocol_connect.go','''	var contentEncoding, acceptEncoding string
	if h.Spec.StreamType == StreamTypeUnary {
		contentEncoding = strings.Join(request.Header.Values(connectUnaryHeaderCompression), ",")
		acceptEncoding = strings.Join(request.Header.Values(connectUnaryHeaderAcceptCompression), ",")
	} else {
		contentEncoding = strings.Join(request.Header.Values(connectStreamingHeaderCompression), ",")
		acceptEncoding = strings.Join(request.Header.Values(connectStreamingHeaderAcceptCompression), ",")
	}
''','''	requestEncodingHeader := connectStreamingHeaderCompression
	requestAcceptHeader := connectStreamingHeaderAcceptCompression
	if h.Spec.StreamType == StreamTypeUnary {
		requestEncodingHeader = connectUnaryHeaderCompression
		requestAcceptHeader = connectUnaryHeaderAcceptCompression
	}
	contentEncoding := strings.Join(request.Header.Values(requestEncodingHeader), ",")
	acceptEncoding := strings.Join(request.Header.Values(requestAcceptHeader), ",")
''')])
