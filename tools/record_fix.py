#!/usr/bin/env python3
"""record_fix.py N PROP COMMIT OBLIGATION WHAT LINE FOUND_BY: add a fixed entry to
known_findings.json and a revert canary to selftest/mutants."""
import json, subprocess, sys
n, prop, commit, obligation, what, line, found_by = sys.argv[1:8]
full = subprocess.run(['git','-C','/repo','rev-parse',commit],capture_output=True,text=True).stdout.strip()
short = full[:7]
p='/verif/known_findings.json'; d=json.load(open(p))
d=[k for k in d if k.get('commit')!=full]
d.append({"status":"fixed","property":prop,"commit":full,"obligation":obligation,"what":what,
          "line":f"fixed: property={prop} {short} {line}","found_by":found_by})
json.dump(d,open(p,'w'),indent=1)
files=subprocess.run(['git','-C','/repo','show','--name-only','--format=',full],capture_output=True,text=True).stdout.split()
files=[f for f in files if not f.endswith('verif_contracts.go')]
patch=subprocess.run(['git','-C','/repo','show',full,'--']+files,capture_output=True,text=True).stdout
open(f'/verif/selftest/mutants/revert-fix-{n}.patch','w').write(patch)
json.dump({"property":prop,"reverse":True,"what":f"revert of fix {short}: {line}","expect":"violation"},open(f'/verif/selftest/mutants/revert-fix-{n}.json','w'),indent=1)
print('recorded',n,short)
