#!/bin/sh
# confirm_seed.sh <prop> <k> [name]: confirm sub-agent change k for property <prop>
# (from /tmp/wt/<prop>.out) in a scratch worktree and store it under /verif/seeded/.
set -u
export GOFLAGS=-mod=mod GOPROXY=off GOSUMDB=off GOTOOLCHAIN=local
P=$1; K=$2; NAME=${3:-$P-$K}
SRC=/tmp/wt/$P.out
WT=$(mktemp -d /tmp/confirm.XXXXXX)
git -C /repo worktree add --detach "$WT/r" HEAD -q || exit 2
cd "$WT/r" || exit 2
res() { echo "$1"; }
cp "$SRC/demo${K}_test.go" ./zz_seed_demo_test.go
base_demo=$(go test -vet=off -count=1 -timeout 300s -run "TestSeeded${P}Change${K}" . 2>&1 | tail -3)
echo "$base_demo" | grep -q '^ok' && D0=pass || D0=FAIL
rm zz_seed_demo_test.go
git apply "$SRC/change${K}.diff" || { echo "patch does not apply"; cd /; git -C /repo worktree remove --force "$WT/r"; exit 2; }
go build ./... 2>&1 | tail -3
suite=$(go test -vet=off -count=1 -timeout 600s ./... 2>&1 | grep -v '^?' | tail -5)
echo "$suite" | grep -q 'FAIL' && S=FAIL || S=pass
cp "$SRC/demo${K}_test.go" ./zz_seed_demo_test.go
mut_demo=$(go test -vet=off -count=1 -timeout 300s -run "TestSeeded${P}Change${K}" . 2>&1 | tail -15)
echo "$mut_demo" | grep -q '^ok' && D1=pass || D1=FAIL
rm zz_seed_demo_test.go
echo "seed $NAME: demo on clean tree=$D0 (want pass); suite with change=$S (want pass); demo with change=$D1 (want FAIL)"
if [ "$D0" = pass ] && [ "$S" = pass ] && [ "$D1" = FAIL ]; then
  mkdir -p /verif/seeded/$NAME
  cp "$SRC/change${K}.diff" /verif/seeded/$NAME/patch.diff
  cp "$SRC/demo${K}_test.go" /verif/seeded/$NAME/demo_test.go
  cp "$SRC/notes${K}.md" /verif/seeded/$NAME/notes.md
  python3 - "$NAME" "$P" "$K" <<'PY'
import json,sys,subprocess
name,p,k=sys.argv[1:4]
import os
prop=os.environ.get("PROPERTY",p)
head=subprocess.run(['git','-C','/repo','rev-parse','HEAD'],capture_output=True,text=True).stdout.strip()
notes=open(f'/verif/seeded/{name}/notes.md').read()
meta={"property":prop,"source":"independent sub-agent given only the property text and a scratch worktree","base_commit":head,
 "needs_to_manifest":notes[:1500],
 "confirmed":{"demo_on_unchanged_tree":"pass","existing_suite_with_change":"pass","demo_with_change":"FAIL",
   "commands":["git worktree add --detach <scratch> HEAD","go test -vet=off -count=1 -run TestSeeded%sChange%s .  (clean tree)"%(p,k),"git apply patch.diff","go build ./... && go test -vet=off -count=1 ./...","go test -vet=off -count=1 -run TestSeeded%sChange%s ."%(p,k)]},
 "detected_by":None}
json.dump(meta,open(f'/verif/seeded/{name}/meta.json','w'),indent=1)
PY
  echo "stored /verif/seeded/$NAME"
else
  echo "NOT stored. clean demo: $base_demo"; echo "suite: $suite"; echo "mutated demo: $mut_demo" | tail -5
fi
cd /; git -C /repo worktree remove --force "$WT/r"; rm -rf "$WT"
