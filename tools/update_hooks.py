#!/usr/bin/env python3
"""Refresh MANIFEST.hooks.source_commits from /repo's history (commits whose subject starts with 'verif')."""
import json,subprocess
m=json.load(open('/verif/MANIFEST.json'))
log=subprocess.run(['git','-C','/repo','log','--format=%h %s','--reverse'],capture_output=True,text=True).stdout.splitlines()
m['hooks']['source_commits']=[l.split()[0] for l in log if l.split(' ',1)[1].startswith('verif')]
json.dump(m,open('/verif/MANIFEST.json','w'),indent=1)
print(len(m['hooks']['source_commits']),'hook commits')
