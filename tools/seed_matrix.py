#!/usr/bin/env python3
"""Apply every seeded change to a scratch copy of /repo (outside /repo and
/verif, removed afterwards), run the quick checks of all claimed properties
(or the given ones) against that copy, and record which checks fired."""
import json,os,subprocess,sys,glob,tempfile,shutil
from concurrent.futures import ThreadPoolExecutor
props=sys.argv[1:] or [c['property_id'] for c in json.load(open('/verif/MANIFEST.json'))['checks']]
only=os.environ.get('SEEDS')
env=dict(os.environ,GOFLAGS='-mod=mod',GOPROXY='off',GOSUMDB='off',GOTOOLCHAIN='local')
def one(d):
    name=os.path.basename(d.rstrip('/'))
    T=tempfile.mkdtemp(prefix='seedmx.')
    try:
        subprocess.run(['rsync','-a','--exclude','.git','/repo/',T+'/repo/'],check=True)
        if subprocess.run(['patch','-s','-p1','-i',d+'patch.diff'],cwd=T+'/repo').returncode!=0:
            return name,{'error':'patch does not apply'}
        fired={}
        plist=props
        if os.environ.get('OWN'):
            plist=[json.load(open(d+'meta.json'))['property']]
        for p in plist:
            r=subprocess.run(['/verif/bin/govc','-repo',T+'/repo','-specs','/verif/specs','-prop',p,'-tier','quick','-replaydir',T+'/replay'],cwd='/verif',capture_output=True,text=True,env=env)
            obs=sorted(set(l.split('replay=')[1].split()[0].split('/')[-1][:-5] for l in r.stdout.splitlines() if l.startswith('VIOLATION')))
            und=[l for l in r.stdout.splitlines() if l.startswith('UNDECIDED')]
            conc=sorted(set(l.split('replay=')[1].split()[0].split('/')[-1][:-5] for l in r.stdout.splitlines() if l.startswith('VIOLATION') and 'no-failing-input-found' not in l))
            if r.returncode!=0: fired[p]={'exit':r.returncode,'obligations':obs[:6],'undecided':und[:2],'with_failing_input':conc[:6]}
        return name,fired
    finally:
        shutil.rmtree(T,ignore_errors=True)
dirs=[d for d in sorted(glob.glob('/verif/seeded/*/')) if not only or os.path.basename(d.rstrip('/')) in only.split(',')]
res={}
try: res=json.load(open('/verif/seeded/RESULTS.json'))
except Exception: pass
with ThreadPoolExecutor(max_workers=int(os.environ.get('JOBS','3'))) as ex:
    for name,fired in ex.map(one,dirs):
        res[name]=fired
        d='/verif/seeded/'+name+'/'
        meta=json.load(open(d+'meta.json'))
        own=meta['property']
        if 'error' in fired:
            print(name,'ERROR',fired['error']); continue
        if fired.get(own,{}).get('with_failing_input'): print('   failing input found for', name)
        print(name, 'own property', own, '->', 'DETECTED' if fired.get(own,{}).get('exit')==1 else ('undecided' if fired.get(own,{}).get('exit')==2 else 'missed'), '| all:', {k:v['exit'] for k,v in fired.items()},flush=True)
        meta['detected_by']={k:v for k,v in fired.items()}
        json.dump(meta,open(d+'meta.json','w'),indent=1)
json.dump(res,open('/verif/seeded/RESULTS.json','w'),indent=1,sort_keys=True)
