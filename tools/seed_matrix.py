#!/usr/bin/env python3
"""Apply every seeded change to /repo in turn, run the quick checks of all
claimed properties (or the given ones), undo, and record which checks fired."""
import json,os,subprocess,sys,glob
props=sys.argv[1:] or [c['property_id'] for c in json.load(open('/verif/MANIFEST.json'))['checks']]
only=os.environ.get('SEEDS')
res={}
for d in sorted(glob.glob('/verif/seeded/*/')):
    name=os.path.basename(d.rstrip('/'))
    if only and name not in only.split(','): continue
    if subprocess.run(['git','-C','/repo','status','--porcelain'],capture_output=True,text=True).stdout.strip():
        sys.exit('/repo not clean')
    if subprocess.run(['git','-C','/repo','apply',d+'patch.diff']).returncode!=0:
        res[name]={'error':'patch does not apply'}; continue
    fired={}
    try:
        for p in props:
            r=subprocess.run(['./check',p],cwd='/verif',capture_output=True,text=True,env=dict(os.environ,VERIF_NOEVIDENCE='1'))
            obs=sorted(set(l.split('replay=')[1].split()[0].split('/')[-1][:-5] for l in r.stdout.splitlines() if l.startswith('VIOLATION')))
            und=[l for l in r.stdout.splitlines() if l.startswith('UNDECIDED')]
            if r.returncode!=0: fired[p]={'exit':r.returncode,'obligations':obs[:6],'undecided':und[:2]}
    finally:
        subprocess.run(['git','-C','/repo','checkout','--','.'])
    res[name]=fired
    meta=json.load(open(d+'meta.json'))
    own=meta['property']
    print(name, 'own property', own, '->', 'DETECTED' if fired.get(own,{}).get('exit')==1 else ('undecided' if fired.get(own,{}).get('exit')==2 else 'missed'), '| all:', {k:v['exit'] for k,v in fired.items()})
    meta['detected_by']={k:v for k,v in fired.items()}
    json.dump(meta,open(d+'meta.json','w'),indent=1)
json.dump(res,open('/verif/seeded/RESULTS.json','w'),indent=1)
