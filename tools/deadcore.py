#!/usr/bin/env python3
"""deadcore.py <function> <where-substring>: minimise the hypotheses that make a return point unreachable."""
import sys,subprocess,glob,os,shutil
fn,where=sys.argv[1],sys.argv[2]
shutil.rmtree('/tmp/gwd',ignore_errors=True)
subprocess.run([os.environ.get('GOVC','/verif/bin/govc'),'-repo',os.environ.get('REPO','/repo'),'-fn',fn,'-keep','-work','/tmp/gwd','-evidence',''],capture_output=True)
cands=[f for f in glob.glob('/tmp/gwd/*reachable_return*z3-new.smt2') if where.replace('.','_').replace(':','_') in f]
if not cands: sys.exit('no such query: '+str(glob.glob('/tmp/gwd/*reachable*')[:5]))
f=cands[0]
lines=open(f).read().split('\n')
lines=[l for l in lines if not l.startswith('(check-sat') and not l.startswith('(get-value')]
last=max(i for i,l in enumerate(lines) if l.startswith('(assert'))
goal=lines[last]; lines=lines[:last]
idx=[i for i,l in enumerate(lines) if l.startswith('(assert')]
def run(drop):
    body=[l for i,l in enumerate(lines) if i not in drop]
    open('/tmp/gwd/d.smt2','w').write('\n'.join(body)+'\n'+goal+'\n(check-sat)\n')
    return subprocess.run(['z3-new','-T:5','/tmp/gwd/d.smt2'],capture_output=True,text=True).stdout.split('\n')[0]
print('full:',run(set()), goal[:200])
drop=set()
for i in idx:
    if run(drop|{i})=='unsat': drop.add(i)
for i in idx:
    if i not in drop:
        c=lines[i-1] if lines[i-1].startswith(';') else ''
        print(c[:200]); print(lines[i][:900]); print()
