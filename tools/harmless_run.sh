#!/bin/sh
# harmless_run.sh <patch> : apply a behaviour-preserving patch to a scratch copy of /repo and
# run every claimed quick check on it; prints the checks that do not exit 0.
set -u
export GOFLAGS=-mod=mod GOPROXY=off GOSUMDB=off GOTOOLCHAIN=local
P=$(readlink -f "$1")
T=$(mktemp -d /tmp/harmless.XXXXXX)
rsync -a --exclude .git /repo/ $T/repo/
(cd $T/repo && patch -s -p1 < "$P") || { echo "patch does not apply"; rm -rf $T; exit 2; }
(cd $T/repo && go build ./... ) || { echo "does not build"; rm -rf $T; exit 2; }
bad=0
for p in C01 C02 C03 C04 C05 C06 C07 C08 C09 C10 C11 C12 C15 C16 C17 C18 C19; do
  out=$(/verif/bin/govc -repo $T/repo -specs /verif/specs -prop $p -tier quick -noreplay -replaydir $T/replay -evidence "" 2>&1); rc=$?
  if [ $rc -ne 0 ]; then bad=1; echo "  $p exit $rc"; echo "$out" | grep "failed\]\|UNDECIDED" | cut -c1-200 | head -5; fi
done
[ $bad = 0 ] && echo "  all 17 checks exit 0"
rm -rf $T
exit $bad
