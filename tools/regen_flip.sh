#!/bin/sh
# regenerate selftest/harmless/flip-equality-operands.patch from /repo's current tree
set -e
T=$(mktemp -d /tmp/flip.XXXXXX)
mkdir -p $T/a $T/b
for f in /repo/*.go; do case $f in *_test.go|*/verif_contracts.go) continue;; esac; cp $f $T/a/; cp $f $T/b/; done
(cd $T/b && gofmt -r 'a == b -> b == a' -w *.go && gofmt -r 'a != b -> b != a' -w *.go)
(cd $T && diff -ruN a b > /verif/selftest/harmless/flip-equality-operands.patch || true)
rm -rf $T
grep -c '^@@' /verif/selftest/harmless/flip-equality-operands.patch
