#!/bin/sh
# mut.sh <file> <python-regex-old> <new> <prop> [govc args]: apply an edit to a scratch copy and run a check (engine development aid)
set -u
f=$1; old=$2; new=$3; prop=$4; shift 4
T=$(mktemp -d /tmp/mut.XXXXXX)
rsync -a --exclude .git /repo/ $T/repo/
python3 - "$T/repo/$f" "$old" "$new" <<'PY'
import sys,re
p,old,new=sys.argv[1:4]
s=open(p).read()
n=len(re.findall(old,s))
if n!=1: sys.exit(f"pattern matches {n} times")
open(p,'w').write(re.sub(old,lambda m:new,s))
PY
[ $? -eq 0 ] || { rm -rf $T; exit 2; }
(cd $T/repo && GOFLAGS=-mod=mod GOPROXY=off GOSUMDB=off GOTOOLCHAIN=local go build ./... 2>&1 | head -5)
BIN=${GOVC:-/verif/bin/govc}
$BIN -repo $T/repo -specs /verif/specs -prop $prop -replaydir $T/replay "$@" 2>&1 | grep -v "^VIOLATION" | grep "failed\]\|quick:\|UNDECIDED" | sed 's/(unknown.*//;s/(timeout.*//'
rm -rf $T
