#!/usr/bin/env python3
"""Check every stored patch (seeds, canaries, harmless) against /repo's working tree;
re-express those that no longer apply cleanly but do with fuzz."""
import json,glob,os,subprocess,shutil,tempfile,sys
def entries():
    for j in sorted(glob.glob('/verif/selftest/mutants/*.json')):
        m=json.load(open(j))
        if m.get('enabled',True) is False: continue
        yield ('mutant',j[:-5]+'.patch',bool(m.get('reverse')),j)
    for d in sorted(glob.glob('/verif/seeded/*/')):
        if not os.path.exists(d+'meta.json'): continue
        m=json.load(open(d+'meta.json'))
        if m.get('superseded'): continue
        yield ('seed',d+'patch.diff',False,d+'meta.json')
    for j in sorted(glob.glob('/verif/selftest/harmless/*.json')):
        yield ('harmless',j[:-5]+'.patch',False,j)
def try_apply(patch,rev,fuzz):
    T=tempfile.mkdtemp(prefix='ap.')
    subprocess.run(['rsync','-a','--exclude','.git','/repo/',T+'/b/'],check=True)
    args=['patch','-s','-p1','--no-backup-if-mismatch','-F',str(fuzz),'-i',patch]
    if rev: args.insert(1,'-R')
    r=subprocess.run(args,cwd=T+'/b',capture_output=True,text=True)
    # leftovers
    rej=subprocess.run('find . -name "*.rej" -o -name "*.orig"',shell=True,cwd=T+'/b',capture_output=True,text=True).stdout.split()
    return T,r.returncode==0 and not rej,r.stdout+r.stderr
bad=[]
for kind,patch,rev,meta in entries():
    T,ok,out=try_apply(patch,rev,0)
    shutil.rmtree(T)
    if ok: continue
    T,ok,out=try_apply(patch,rev,3)
    if not ok:
        shutil.rmtree(T); bad.append((kind,patch)); print('MANUAL',kind,patch,out.strip().split('\n')[0][:100]); continue
    # build check
    env=dict(os.environ,GOFLAGS='-mod=mod',GOPROXY='off',GOSUMDB='off',GOTOOLCHAIN='local')
    b=subprocess.run(['go','build','./...'],cwd=T+'/b',capture_output=True,text=True,env=env)
    if b.returncode!=0:
        shutil.rmtree(T); bad.append((kind,patch)); print('MANUAL(build)',kind,patch,b.stderr[:150]); continue
    # regenerate diff of changed files
    subprocess.run(['rsync','-a','--exclude','.git','/repo/',T+'/a/'],check=True)
    d=subprocess.run(['diff','-ruN','-x','.git','a','b'],cwd=T,capture_output=True,text=True).stdout
    if rev:
        # stored reversed: patch applied with -R gives b; regenerate as diff b->a so that -R still yields b
        d=subprocess.run(['diff','-ruN','-x','.git','b','a'],cwd=T,capture_output=True,text=True).stdout.replace('--- b/','--- a/').replace('+++ a/','+++ b/')
    if kind=='seed':
        dd=os.path.dirname(patch)
        if not os.path.exists(dd+'/patch.orig.diff'): shutil.copy(patch,dd+'/patch.orig.diff')
        m=json.load(open(meta)); m['ported']='patch.diff re-expresses the same change on the tree after the fix: commits that rewrote the lines it touches (original: patch.orig.diff, against base_commit)'; json.dump(m,open(meta,'w'),indent=1)
    open(patch,'w').write(d)
    shutil.rmtree(T)
    print('ported',kind,patch)
print(len(bad),'need manual porting')
