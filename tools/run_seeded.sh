#!/bin/sh
# run_seeded.sh <seed name> [property ...]: apply a seeded change to /repo, run the
# quick checks of the given properties (default: the seed's own), undo it.
set -u
NAME=$1; shift
D=/verif/seeded/$NAME
[ -f "$D/patch.diff" ] || { echo "no such seed $NAME"; exit 2; }
PROPS="$*"
[ -z "$PROPS" ] && PROPS=$(python3 -c "import json;print(json.load(open('$D/meta.json'))['property'])")
if [ -n "$(git -C /repo status --porcelain)" ]; then echo "/repo not clean"; exit 2; fi
git -C /repo apply "$D/patch.diff" || exit 2
trap 'git -C /repo checkout -- . ' EXIT INT TERM
for p in $PROPS; do
  out=$(cd /verif && VERIF_NOEVIDENCE=1 ./check $p 2>&1); rc=$?
  echo "== seed $NAME property $p: exit $rc"
  echo "$out" | grep -E "VIOLATION|UNDECIDED|KNOWN|failed\]" | cut -c1-220 | head -12
done
