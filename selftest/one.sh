#!/bin/sh
# selftest/one.sh <patch> <reverse 0/1> <property> <expect> <name>: one corpus entry.
# Applies the patch to a scratch copy of /repo (outside /repo and /verif, removed
# afterwards), runs the quick check of the property on it and prints one line:
# "ok ..." (exit 0) or "FAIL ..." (exit 1).
set -u
cd /verif || exit 2
export GOFLAGS=-mod=mod GOPROXY=off GOSUMDB=off GOTOOLCHAIN=local GOVC_PARALLEL=${GOVC_PARALLEL:-4}
patch=$(readlink -f "$1"); rev=$2; prop=$3; expect=$4; name=$5
T=$(mktemp -d "${TMPDIR:-/tmp}/govc-selftest.XXXXXX") || exit 2
trap 'rm -rf "$T"' EXIT INT TERM
mkdir -p "$T/repo"
rsync -a --exclude .git /repo/ "$T/repo/"
if [ "$rev" = 1 ]; then (cd "$T/repo" && patch -s -R -p1 < "$patch") >/dev/null 2>&1 || { echo "FAIL $name ($prop): patch does not apply"; exit 1; }
else (cd "$T/repo" && patch -s -p1 < "$patch") >/dev/null 2>&1 || { echo "FAIL $name ($prop): patch does not apply"; exit 1; }; fi
out=$(bin/govc -repo "$T/repo" -specs /verif/specs -prop "$prop" -tier quick -replaydir "$T/replay" -work "$T/work" 2>&1); rc=$?
if [ "$expect" = violation ] && [ $rc -eq 1 ]; then echo "ok   $name ($prop): violation reported: $(echo "$out" | grep -m1 VIOLATION | sed 's/.*replay=//' | xargs basename 2>/dev/null)"
elif [ "$expect" = pass ] && [ $rc -eq 0 ]; then echo "ok   $name ($prop): still proved"
elif [ "$expect" = pass-or-undecided ] && { [ $rc -eq 0 ] || [ $rc -eq 2 ]; } && ! echo "$out" | grep -q '^VIOLATION'; then echo "ok   $name ($prop): no alarm (exit $rc)"
elif [ "$expect" = undecided ] && [ $rc -eq 2 ]; then echo "ok   $name ($prop): refused as undecided: $(echo "$out" | grep -m1 UNDECIDED | cut -c1-120)"
else echo "FAIL $name ($prop): expected $expect, exit $rc: $(echo "$out" | tail -2 | tr '\n' ' ' | cut -c1-300)"; exit 1; fi
exit 0
