#!/bin/sh
# selftest/run.sh [property ...]: must-fail / must-pass corpus for the engine.
# Every mutant (selftest/mutants/*.patch, seeded/*/patch.diff) is applied to a
# scratch copy of /repo outside /repo and /verif; the quick check of its
# property must report a violation (exit 1). Every harmless edit
# (selftest/harmless/*.patch) must leave all listed checks at exit 0.
# Entries run in parallel (JOBS, default 6), each in its own scratch copy
# (selftest/one.sh).
set -u
cd /verif || exit 2
want="$*"
JOBS=${JOBS:-4}
L=$(mktemp "${TMPDIR:-/tmp}/govc-selftest-jobs.XXXXXX") || exit 2
O=$(mktemp "${TMPDIR:-/tmp}/govc-selftest-out.XXXXXX") || exit 2
trap 'rm -f "$L" "$O"' EXIT INT TERM
python3 - "$want" > "$L" <<'PY'
import json,glob,os,sys
want=sys.argv[1].split()
claimed=[c['property_id'] for c in json.load(open('MANIFEST.json'))['checks']]
def emit(patch,rev,prop,exp,name):
    if want and prop not in want: return
    print("\t".join([patch,str(rev),prop,exp,name]))
for j in sorted(glob.glob('selftest/mutants/*.json')):
    m=json.load(open(j))
    if m.get('enabled',True) is False or m['property'] not in claimed: continue
    emit(j[:-5]+'.patch',1 if m.get('reverse') else 0,m['property'],m.get('expect','violation'),os.path.basename(j)[:-5])
for d in sorted(glob.glob('seeded/*/')):
    if not os.path.exists(d+'meta.json'): continue
    m=json.load(open(d+'meta.json'))
    if m.get('superseded'): continue
    if (m.get('detected_by') or {}).get(m['property'],{}).get('exit')!=1: continue
    emit(d+'patch.diff',0,m['property'],'violation','seeded/'+os.path.basename(d.rstrip('/')))
for j in sorted(glob.glob('selftest/harmless/*.json')):
    m=json.load(open(j))
    exp='pass-or-undecided' if m.get('allow_undecided') else 'pass'
    for prop in m['properties']:
        emit(j[:-5]+'.patch',0,prop,exp,'harmless/'+os.path.basename(j)[:-5])
PY
n=$(wc -l < "$L")
tr '\t' '\n' < "$L" | xargs -d '\n' -n 5 -P "$JOBS" selftest/one.sh > "$O" 2>&1
cat "$O"
if grep -q '^FAIL' "$O" || [ "$(grep -c '^ok' "$O")" -ne "$n" ]; then echo "selftest: $n runs, FAILURES"; exit 1; fi
echo "selftest: $n runs, all as expected"
exit 0
