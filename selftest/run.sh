#!/bin/sh
# selftest/run.sh [property ...]: must-fail / must-pass corpus for the engine.
# Every mutant (selftest/mutants/*.patch, seeded/*/patch.diff) is applied to a
# scratch copy of /repo outside /repo and /verif; the quick check of its
# property must report a violation (exit 1). Every harmless edit
# (selftest/harmless/*.patch) must leave all listed checks at exit 0.
set -u
cd /verif || exit 2
export GOFLAGS=-mod=mod GOPROXY=off GOSUMDB=off GOTOOLCHAIN=local
want="$*"
T=$(mktemp -d "${TMPDIR:-/tmp}/govc-selftest.XXXXXX") || exit 2
trap 'rm -rf "$T"' EXIT INT TERM
fail=0; n=0
run_one() { # patch reverse(0/1) property expect name
  patch=$(readlink -f "$1"); rev=$2; prop=$3; expect=$4; name=$5
  if [ -n "$want" ]; then case " $want " in *" $prop "*) ;; *) return;; esac; fi
  rm -rf "$T/repo"; mkdir -p "$T/repo"
  rsync -a --exclude .git /repo/ "$T/repo/"
  if [ "$rev" = 1 ]; then (cd "$T/repo" && patch -s -R -p1 < "$patch") || { echo "selftest: $name: patch does not apply"; fail=1; return; }
  else (cd "$T/repo" && patch -s -p1 < "$patch") || { echo "selftest: $name: patch does not apply"; fail=1; return; }; fi
  out=$(bin/govc -repo "$T/repo" -specs /verif/specs -prop "$prop" -tier quick -replaydir "$T/replay" 2>&1); rc=$?
  n=$((n+1))
  if [ "$expect" = violation ] && [ $rc -eq 1 ]; then echo "ok   $name ($prop): violation reported: $(echo "$out" | grep -m1 VIOLATION | sed 's/.*replay=//' | xargs basename 2>/dev/null)"
  elif [ "$expect" = pass ] && [ $rc -eq 0 ]; then echo "ok   $name ($prop): still proved"
  elif [ "$expect" = pass-or-undecided ] && { [ $rc -eq 0 ] || [ $rc -eq 2 ]; } && ! echo "$out" | grep -q '^VIOLATION'; then echo "ok   $name ($prop): no alarm (exit $rc)"
  elif [ "$expect" = undecided ] && [ $rc -eq 2 ]; then echo "ok   $name ($prop): refused as undecided: $(echo "$out" | grep -m1 UNDECIDED | cut -c1-120)"
  else echo "FAIL $name ($prop): expected $expect, exit $rc"; echo "$out" | tail -3; fail=1; fi
}
for j in selftest/mutants/*.json; do
  [ -f "$j" ] || continue
  p=${j%.json}.patch
  prop=$(python3 -c "import json;print(json.load(open('$j'))['property'])")
  rev=$(python3 -c "import json;print(1 if json.load(open('$j')).get('reverse') else 0)")
  exp=$(python3 -c "import json;print(json.load(open('$j')).get('expect','violation'))")
  en=$(python3 -c "import json;print(0 if json.load(open('$j')).get('enabled',True) is False else 1)")
  [ "$en" = 1 ] || continue
  claimed=$(python3 -c "import json;print(1 if '$prop' in [c['property_id'] for c in json.load(open('MANIFEST.json'))['checks']] else 0)")
  [ "$claimed" = 1 ] || continue
  run_one "$p" "$rev" "$prop" "$exp" "$(basename $p .patch)"
done
for d in seeded/*/; do
  [ -f "$d/meta.json" ] || continue
  prop=$(python3 -c "import json;m=json.load(open('$d/meta.json'));print(m['property'])")
  det=$(python3 -c "import json;m=json.load(open('$d/meta.json'));print(1 if (m.get('detected_by') or {}).get(m['property'],{}).get('exit')==1 and not m.get('superseded') else 0)")
  [ "$det" = 1 ] || continue
  run_one "$d/patch.diff" 0 "$prop" violation "seeded/$(basename $d)"
done
for j in selftest/harmless/*.json; do
  [ -f "$j" ] || continue
  p=${j%.json}.patch
  exp=pass
  [ "$(python3 -c "import json;print(1 if json.load(open('$j')).get('allow_undecided') else 0)")" = 1 ] && exp=pass-or-undecided
  for prop in $(python3 -c "import json;print(' '.join(json.load(open('$j'))['properties']))"); do
    run_one "$p" 0 "$prop" $exp "harmless/$(basename $p .patch)"
  done
done
echo "selftest: $n runs, $( [ $fail = 0 ] && echo all as expected || echo FAILURES )"
exit $fail
